"""Per-property configuration of the checks: theorem file, theorem names, correspondence runs,
search, and the projection of a detection signature each property's theorem speaks about."""

NAMES_RUN = {"level": "names", "args_quick": [], "args_thorough": []}
CD_RUN = {"level": "cd", "args_quick": ["--n", "500"], "args_thorough": ["--n", "20000"]}
E2E_RUN = {"level": "detect", "replayable": True,
           "args_quick": ["--focus", "E2E", "--n", "140", "--max-len", "3000", "--big", "0", "--full-every", "1"],
           "args_thorough": ["--focus", "E2E", "--n", "2500", "--max-len", "3000", "--big", "0", "--full-every", "1"]}
E2E_RULE = ("; end-to-end: every generated case up to 3000 bytes is ALSO run through the detect model in which the mess detector, the "
            "coherence scan, the script layers, the Jaro score, the merge, the single-byte languages and the declaration matcher are the "
            "models themselves, and UTF-8, UTF-16LE/BE and every single-byte codec are DECODED by the models (Model/Codecs.v) "
            "(driver command DETECTFULL = from_bytes F32ops (Pipeline.pipeline_dec B)); only the 8 CJK codecs, the per-character properties and alphabet_languages are still "
            "answered by the library; the result must equal the real from_bytes line for line, bit for bit")
MD_RUN = {"level": "md", "args_quick": ["--n", "400"], "args_thorough": ["--n", "12000"]}
MD_RULE = ("; md level: md::mess_ratio (uncached body) against Model/Md.v -- the eight detector plugins, the checkpoint periods and the early exit -- "
           "with the two per-character oracles (ICU flag word, remove_accent) served by the library, bit for bit, on mojibake (corpus texts encoded in "
           "one encoding and decoded with another), corpus slices, lengths on the 510/511/1023/1024 and 32/64/128 boundaries, random code points of "
           "14 blocks, long / camel-cased / accent-heavy words, punctuation and control-character soups, interleaved scripts, x thresholds "
           "{0 ... 10}; utils::is_suspiciously_successive_range against Md.suspicious on ALL 280 x 280 pairs of range names (and None); the model's "
           "binary32 literals against the library's; MessOK (non-NaN, non-negative) asserted on every real answer")


def detect_run(focus, nq, nt, bigq=0, bigt=6, maxq=6000, maxt=60000, midq=0, midt=3):
    return {"level": "detect", "replayable": True,
            "args_quick": ["--focus", focus, "--n", str(nq), "--max-len", str(maxq), "--big", str(bigq), "--mid", str(midq)],
            "args_thorough": ["--focus", focus, "--n", str(nt), "--max-len", str(maxt), "--big", str(bigt), "--mid", str(midt)]}


def detect_search(focus):
    return {"level": "detect", "args": ["--focus", focus, "--n", "1500", "--max-len", "8000"]}


PROPS = {
    "C18": {
        "module": "PropC18",
        "theorems": ["C18_names", "C18_canonical_idempotent", "C18_unreportable"],
        "runs": [NAMES_RUN, detect_run("C18", 260, 4000)],
        "search": {"level": "names", "args": []},
        "rule": "detection cases (mark- and declaration-heavy stream): for every match and every listed alternative the reported name must canonicalise "
                "to itself, be found by lookup-by-name, be accepted by the include list, have an alias list, and the PUBLIC decode helper given "
                "that name on the input minus the name's own mark must reproduce the exposed text; names level: finite and exhaustive: every supported name, every label of the codec crate in 8 spellings each, "
                "all 41x41 similarity pairs, every mark, every range boundary +-1, every alias of every reportable name "
                "decoded on all 256 single bytes and 40 random strings; non-trivial = label inputs the canonicaliser resolves",
        "assumptions": ["codec identity is identity of the codec crate's encoding constant reached by encoding_from_whatwg_label"],
        "trusted": [],
    },
}


PROPS["C01"] = {
    "module": "PropC01",
    "theorems": ["C01_sound", "C01_decodes", "C01_ascii_partial", "C01_ascii_refuted",
                 "C01_decodes_single_byte_modelled", "C01_single_byte_decoding_is_bytewise",
                 "C01_no_single_byte_table_holds_feff", "C01_decodes_with_the_crates_tables",
                 "C01_decodes_pipeline", "C01_lazy_contract_holds_of_the_pipeline", "C01_supported_single_byte_names_have_tables"],
    "model_targets": ["Model/Decode.vo"],
    "runs": [detect_run("C01", 260, 4000, bigq=4, bigt=16, midq=1, midt=6),
             {"level": "decode", "args_quick": ["--n", "600"], "args_thorough": ["--n", "20000"]}, NAMES_RUN],
    "search": detect_search("C01"),
    "rule": "detection cases = fixed witnesses + corpus files + generated (corpus slices, texts re-encoded into any supported "
            "encoding, marks, declarations, ASCII with high bytes at random offsets incl. between the sampled chunks, tiny, binary, "
            "corrupted UTF-8, mixed scripts, inputs on both sides of 1,000,000 bytes incl. an ASCII head followed by legacy text, and legacy single-byte "
            "text of 500,001..1,000,000 bytes -- above the prefix limit, below the lazy limit) x random settings; each compared field by "
            "field with the extracted Coq model run on the same case with its oracles served by the real primitives, and checked "
            "against the codec crate's own strict decode; non-trivial = distinct cases with at least one match",
    "assumptions": ["LazyContract (single-byte decoders are byte-wise) for inputs above TOO_BIG_SEQUENCE only; discharged for decode oracles that are the "
                    "table-decoder model (C01_decodes_single_byte_modelled; the decode level compares that model with the helper on the crate's 30 tables "
                    "in strict / test-only / chunk mode and checks that no table contains U+FEFF)",
                    "known finding D1: the 'ascii' conjunct is refuted (C01_ascii_refuted); violations inside the known class are listed, not raised"],
    "trusted": ["Flocq axioms only in C01_ascii_refuted (witness evaluated on binary32): sig_forall_dec, sig_not_dec, functional_extensionality_dep, classic"],
}


DETECT_RULE = ("detection cases = fixed witnesses + corpus files + generated (corpus slices, texts re-encoded into any "
               "supported encoding, marks, declarations, ASCII with high bytes at random offsets, tiny, binary, corrupted UTF-8, "
               "mixed scripts) x random settings (steps 1..64, chunk sizes 1..4096, thresholds on and around 0, 0.01 ... 1, "
               "filters spelled through random labels); each compared field by field with the extracted Coq model served by "
               "the real primitives; non-trivial = distinct cases with at least one match")

PROPS["C05"] = {
    "module": "PropC05",
    "theorems": ["C05_membership", "C05_canon_is_entrywise", "C05_canonical_twin", "C05_unknown_include", "C05_unknown_exclude"],
    "runs": [NAMES_RUN, detect_run("C05", 300, 5000)],
    "search": detect_search("C05"),
    "rule": DETECT_RULE + "; focus C05: every case carries 1-8 filter entries drawn from 66 label spellings (case, padding, aliases) and "
            "10% an unknown label; each result is re-run with canonicalised filters (twin) and membership-checked",
    "assumptions": ["entries canonicalising to 'replacement' (five WHATWG labels of an unsupported encoding) are outside the twin statement"],
    "trusted": [],
}

PROPS["C07"] = {
    "module": "PropC07",
    "theorems": ["C07_flag_truthful", "C07_text_after_mark", "C07_marks_prefix_free", "C07_text_after_mark_single_byte_modelled",
                 "C07_text_after_mark_pipeline", "C07_marks_encode_feff", "C07_marked_unicode_input_exposes_the_text_after_the_mark"],
    "model_targets": ["Model/Decode.vo"],
    "runs": [detect_run("C07", 300, 5000)],
    "search": detect_search("C07"),
    "rule": DETECT_RULE + "; focus C07: half of the cases get one of the four marks prepended (20% doubled) to an arbitrary body "
            "(matching text, foreign text, random bytes, nothing)",
    "assumptions": ["LazyContract only for C07_text_after_mark on inputs above TOO_BIG_SEQUENCE"],
    "trusted": [],
}


PROPS["C04"] = {
    "module": "PropC04",
    "theorems": ["C04_threshold", "C04_coherence_range", "C04_percents", "C04_f32_not_ge_lt",
                 "C04_threshold_binary32", "C04_coherence_range_binary32", "C04_float_laws_hold_for_binary32",
                 "C04_valid_utf8_yields_match", "C04_mess_never_nan_or_negative", "C04_threshold_mess_modelled", "C04_md_shape_pinned",
                 "C04_jaro_score_in_unit_interval", "C04_mean_of_unit_scores", "C04_coherence_in_unit_interval_modelled",
                 "C04_pipeline_chaos", "C04_pipeline_coherence",
                 "C04_pipeline_dec_chaos", "C04_pipeline_dec_coherence", "C04_every_string_yields_a_match"],
    "model_targets": ["Model/Md32.vo"],
    "runs": [detect_run("C04", 300, 5000, bigq=1, bigt=8), MD_RUN, CD_RUN, E2E_RUN],
    "search": detect_search("C04"),
    "rule": DETECT_RULE + "; thresholds drawn from {0, 0.01, 0.02, 0.05, 0.1, 0.2, 0.3, 0.5, 0.8, 1} and their binary32 neighbours, and -- every fourth case -- set bit-equal to the chaos of a returned match and one ulp either side (real and model re-run), "
            "fall-back and pre-emptive switches both ways; every mess / coherence answer of the real primitives is checked against "
            "the MessOK / CohOK contracts the theorems assume" + MD_RULE + E2E_RULE,
    "assumptions": ["MessOK: mess_ratio returns a non-NaN non-negative f32 -- a hypothesis of the generic theorem (asserted on every oracle answer) and PROVED of "
                    "the mess-detector model Model/Md.v for binary32 (C04_mess_never_nan_or_negative, C04_threshold_mess_modelled); the model's "
                    "remaining oracles are the per-character ICU flag word and remove_accent",
                    "MergeOK: merged language scores are non-NaN and in [0,1] (asserted on every oracle answer)",
                    "DecodeLen: a strict decode yields at most one character per byte (asserted on every oracle answer)",
                    "FloatLaws (Proofs/FloatLaws.v) is a hypothesis of the generic theorems and is PROVED of the Flocq binary32 instance "
                    "(Proofs/F32Laws.v: mean of good values is good, (-0+x)/1 = x, |x-x| < eps, ...): the *_binary32 theorems assume nothing about floats",
                    "len b < 2^64 and threshold not NaN (the property's own well-formedness)"],
    "trusted": ["Flocq's 4 standard axioms (sig_forall_dec, sig_not_dec, functional_extensionality_dep, classic) under the *_binary32 theorems"],
}


PROPS["C13"] = {
    "module": "PropC13",
    "theorems": ["C13_covering_windows_agree", "C13_chaos_function", "C13_same_text_same_chaos", "C13_chaos_function_binary32",
                 "C13_mess_is_bank_sum_of_a_prefix", "C13_mess_full_scan_when_threshold_not_reached",
                 "C13_same_text_same_chaos_across_inputs", "C13_unicode_forms_same_chaos", "C13_chaos_function_pipeline",
                 "C13_any_modelled_encoding_same_chaos"],
    "model_targets": ["Model/Md32.vo"],
    "runs": [detect_run("C13", 260, 4000, bigq=1, bigt=4)],
    "search": detect_search("C13"),
    "rule": DETECT_RULE + "; focus C13: every case that fits its window is re-run with (1, len) and another random covering pair; "
            "and >= 60 texts are encoded into every supported encoding that round-trips them (with / without BOM), probed alone with "
            "the fall-back off and a covering window: accept / reject and chaos bits must coincide",
    "assumptions": ["DecodeLen: at most one character per byte (asserted on every oracle answer)",
                    "FloatLaws is a hypothesis of the generic C13_chaos_function and proved of binary32 (C13_chaos_function_binary32 assumes no float law)",
                    "inputs up to TOO_BIG_SEQUENCE for the chaos statement; the window statement has no size bound"],
    "trusted": ["Flocq's 4 standard axioms under the *_binary32 theorems only"],
}


PROPS["C02"] = {
    "module": "PropC02",
    "theorems": ["C02_no_panic", "C02_only_filter_errors", "C02_sizes_ordered", "C02_aliases_total", "C02_index_in_bounds"],
    "runs": [NAMES_RUN, detect_run("C02", 220, 4000, bigq=1, bigt=8),
             {"level": "total", "args_quick": ["--n", "160", "--big", "2"], "args_thorough": ["--n", "3000", "--big", "12"]}],
    "search": {"level": "total", "args": ["--n", "1500", "--big", "6"]},
    "rule": DETECT_RULE + "; plus the `total` level: the same case stream with a trace-level logger installed (forces the library to "
            "evaluate its log arguments), every accessor / lookup by 76 names / indexing of every result under catch_unwind, the "
            "decode helper in 3 traps x test-only x chunk mode and the encode helper in 4 traps on random, re-encoded and corpus bytes "
            "for every supported encoding, iana_name on random strings, from_path on four failure kinds; ill-formed settings "
            "(steps = 0) are run on both sides to check that panics are modelled",
    "assumptions": ["steps >= 1 (the property's well-formedness); steps*chunk_size overflow is outside the model (unbounded N)",
                    "panics inside the codec crate, ICU, regex, unicode_names2, allocation and logging are outside the model; "
                    "they are covered only by the catch_unwind search"],
    "trusted": [],
}


PROPS["C08"] = {
    "module": "PropC08",
    "theorems": ["C08_container_invariant", "C08_detection_results_ranked", "C08_dominant_first", "C08_dominated_last",
                 "C08_get_best_first", "C08_prefers_is_two_sided", "C08_f32_order_total", "C08_sort_is_permutation",
                 "C08_prefers_is_two_sided_binary32", "C08_cmp_laws_hold_for_binary32",
                 "C08_no_adjacent_inversion", "C08_detection_no_adjacent_inversion", "C08_sort_no_adjacent_inversion",
                 "C08_detection_no_adjacent_inversion_binary32"],
    "model_targets": ["Model/Matches.vo"],
    "runs": [{"level": "container", "args_quick": ["--n", "500"], "args_thorough": ["--n", "6000"]},
             detect_run("C08", 150, 3000)],
    "search": {"level": "container", "args": ["--n", "6000"]},
    "rule": "containers of 1..64 matches built through the hook constructor with keys from tie-heavy / cyclic grids (chaos on and "
            "around 0.01-boundaries, coherence on and around 0.02-boundaries, NaN, -0, +inf, multi-byte usage via text/payload "
            "lengths, 1 in 8 items repeating an earlier text to exercise the merge rule), via new() and via append() in sequence; "
            "for <= 20 items the real order must EQUAL the model's, above 20 the same multiset plus dominant-first / dominated-last "
            "on the real container; 8 random pairs per container compared with Matches.cmp_key bit for bit and with an independent "
            "restatement of the documented rule; non-trivial = containers with >= 2 items",
    "assumptions": ["sort_unstable = insertion sort for len <= 20 (exact, core::slice::sort::unstable); above 20 the std algorithm is not "
                    "modelled: the theorem is then about the model only and the tie is the implementation-side dominance check",
                    "CmpLaws (|x-y| = |y-x|, totality of the OrderedFloat order) is a hypothesis of the generic C08_prefers_is_two_sided and is "
                    "proved of binary32 (C08_cmp_laws_hold_for_binary32); C08_dominant_first / C08_dominated_last take the two-sided condition and assume nothing"],
    "trusted": ["Flocq's 4 standard axioms under C08_f32_order_total and the *_binary32 theorems"],
}


PROPS["C09"] = {
    "module": "PropC09",
    "theorems": ["C09_restricted_verdict_agrees", "C09_restricted_run", "C09_probe_ignores_filters", "C09_missing_is_explained"],
    "runs": [detect_run("C09", 600, 6000, maxq=4000, maxt=20000, midq=1, midt=4)],
    "search": {"level": "detect", "args": ["--focus", "C09", "--n", "800", "--max-len", "5000"]},
    "timeout": 1700,
    "rule": DETECT_RULE + "; focus C09: for every case every reported encoding is re-run alone (same settings, include=[E]) and "
            "compared on chaos bits, coherence list, BOM flag and text; and all 41 encodings are probed alone (fall-back off) to rebuild "
            "the expected set of reported encodings from the stand-alone verdicts, the hint rule and the similarity bookkeeping",
    "assumptions": [],
    "trusted": [],
}


PROPS["C06"] = {
    "module": "PropC06",
    "theorems": ["C06_hints_first", "C06_first_qualifying_hint_wins", "C06_no_qualifying_hint_no_early_exit",
                 "C06_early_exit_only_when_qualifying", "C06_only_hints_qualify", "C06_hints_not_similarity_keys",
                 "C06_declared_zone", "C06_declared_sound", "C06_regex_pinned"],
    "model_targets": ["Model/Declared.vo"],
    "runs": [detect_run("C06", 240, 2500, maxq=6000, maxt=20000),
             {"level": "declared", "args_quick": ["--n", "2500"], "args_thorough": ["--n", "60000"]}],
    "search": {"level": "detect", "args": ["--focus", "C06", "--n", "800", "--max-len", "5000"]},
    "rule": DETECT_RULE + "; focus C06: declaration x BOM x body generator (any label, three keywords, quoting, position around byte "
            "4096, fitting or contradicting the body); for every case the expected result is rebuilt from stand-alone probes of all 41 "
            "encodings with the hint rule and compared with the real result",
    "assumptions": ["the declaration matcher is modelled concretely (Model/Declared.v) for this one expression; that the regex crate's "
                    "leftmost-first semantics coincides with the greedy matcher on it (the three character classes are disjoint) is argued in "
                    "the file header and validated by the `declared` correspondence, not proved against a regex semantics"],
    "trusted": [],
}


PROPS["C10"] = {
    "module": "PropC10",
    "theorems": ["C10_partition", "C10_lookup", "C10_languages", "C10_most_probable_language", "C10_unicode_ranges", "C10_partition_binary32",
                 "C10_single_byte_languages_never_empty"],
    "runs": [detect_run("C10", 300, 5000, midq=1, midt=4), {"level": "container", "args_quick": ["--n", "200"], "args_thorough": ["--n", "5000"]}],
    "search": detect_search("C10"),
    "rule": DETECT_RULE + "; every result is checked for: no encoding twice, alternatives share text and chaos with their match, distinct "
            "matches differ in text or chaos, languages without repeats and within the tied language, most probable language by the "
            "stated cases, unicode_ranges sorted / duplicate free / equal to the per-character union, lookup by every candidate name "
            "and by every label of a 66-spelling pool that canonicalises to it",
    "assumptions": ["inputs up to TOO_BIG_SEQUENCE for the partition statement (as the property)",
                    "CmpLaws is a hypothesis of the generic C10_partition and proved of binary32 (C10_partition_binary32 assumes no float law)",
                    "MergeNoDup / MergeSub / CohInclude contracts on the coherence oracles (asserted on every real answer; refined by the Cd model)"],
    "trusted": ["Flocq's 4 standard axioms under the *_binary32 theorems only"],
}



PROPS["C19"] = {
    "module": "PropC19",
    "theorems": ["C19_threshold_is_a_cutoff", "C19_listed_iff_reaches", "C19_raising_only_removes", "C19_ordered_by_score",
                 "C19_single_chunk", "C19_coherence_is_first_score", "C19_ordered_by_score_binary32", "C19_single_chunk_binary32",
                 "C19_validated_alphabet_languages_answer"],
    "model_targets": ["Model/Cd.vo"],
    "runs": [CD_RUN, detect_run("C19", 150, 2500)],
    "search": {"level": "cd", "args": ["--n", "8000"]},
    "rule": "chunk-like texts (corpus slices, two corpus texts of different scripts glued, alphabet soups of one or two languages giving "
            "several languages with close scores) x language thresholds {0, 0.05 ... 0.8, 0.81, 1} x include lists (none, [Unknown], "
            "one language, several): cd::coherence_ratio (uncached) against Model/Cd.v with its three oracles served by the real "
            "functions, bit for bit; on the implementation each text is swept over 8 thresholds: the list at threshold t must be "
            "exactly the threshold-0 list cut at t (same scores), ordered by non-increasing score, and never gain a language; merge and "
            "filter_alt on random lists (ties, NaN); non-trivial = texts with at least one language listed",
    "assumptions": ["CmpLaws / FloatLaws are hypotheses of the generic theorems and proved of binary32 (the *_binary32 theorems assume no float law)",
                    "alpha_unicode_split, alphabet_languages and characters_popularity_compare (jaro) are oracles"],
    "trusted": ["Flocq's 4 standard axioms under the *_binary32 theorems only"],
}

PROPS["C03"] = {
    "module": "PropC03",
    "theorems": ["C03_sorted_unique", "C03_unicode_ranges_order_independent", "C03_marks_order_independent",
                 "C03_marks_keys_distinct", "C03_coherence_function_of_visited",
                 "C03_suspicious_keyword_clause_is_set_level", "C03_suspicious_range_symmetric",
                 "C03_layers_partition", "C03_layers_in_order_of_first_appearance"],
    "model_targets": ["Model/Cd.vo", "Model/Md32.vo"],
    "runs": [{"kind": "launches", "level": "launches", "launches_quick": 3, "launches_thorough": 16,
              "args_quick": ["--extra", "300", "--rounds", "4"], "args_thorough": ["--extra", "3000", "--rounds", "32"]},
             CD_RUN, MD_RUN, detect_run("C03", 150, 2000), E2E_RUN],
    "search": None,
    "rule": "the 428 corpus files + 300 generated multi-script texts (two or three corpus texts of different scripts glued) are detected in "
            "3 fresh processes (each launch draws fresh ahash seeds), 4 times per process with the memo caches flushed in between (new map "
            "instances get fresh keys): all signatures (matches in order, chaos / coherence bits, language lists, alternatives, BOM flags, "
            "text hashes, unicode ranges) must be identical; plus the cd and detect correspondences, whose deterministic models must equal the code",
    "assumptions": ["the hash function and the runtime are not modelled: an order-sensitive site inside code the models treat as an oracle "
                    "(alpha_unicode_split internals, alphabet_languages) is caught only by the multi-launch comparison",
                    "the CLI clause is covered by C16's runs of the built binary"],
    "trusted": [],
}


PROPS["C17"] = {
    "module": "PropC17",
    "theorems": ["C17_utf8_window_decodes", "C17_char_suffix_is_continuation", "C17_strict_ok", "C17_test_only_agrees", "C17_automaton_facts",
                 "C17_utf8_helper_never_out_of_fuel", "C17_single_byte_helper_never_out_of_fuel",
                 "C17_every_scalar_value_encodes_to_a_character", "C17_utf8_round_trip", "C17_utf16_round_trip",
                 "C17_modelled_codecs_one_char_per_byte_at_most", "C17_single_byte_closed_form_is_the_helper",
                 "C17_utf16_helper_never_out_of_fuel", "C17_automaton_accepts_only_scalar_encodings",
                 "C17_utf8_decoding_is_the_exact_inverse_of_encoding", "C17_modelled_codecs_emit_scalar_values"],
    "model_targets": ["Model/Decode.vo"],
    "runs": [{"level": "decode", "args_quick": ["--n", "1500"], "args_thorough": ["--n", "60000", "--exhaustive", "1"]}],
    "search": {"level": "decode", "args": ["--n", "12000"]},
    "rule": "for every resolvable encoding: random, re-encoded (sometimes corrupted / truncated), corpus and UTF-8 edge-case byte strings "
            "(overlongs, surrogates, U+10FFFF, stray continuations) through the public helper in strict / ignore / replace x test-only, "
            "compared with the codec crate's own decode; the UTF-8 decoder model (all modes incl. chunk) and the single-byte decoder model "
            "(30 forward tables dumped from the crate at run time) compared with the helper; and ALL windows [i,j) of short valid UTF-8 "
            "texts mixing 1-4 byte characters (incl. U+7FF/U+800/U+FFFF/U+10000/U+10FFFF) that contain a complete character, decoded in "
            "chunk mode against the expected complete characters and against the model; the UTF-16LE/BE decoder model (Model/Utf.v) against "
            "the helper in strict / test-only / chunk / ignore / replace mode on re-encoded corpus text, surrogate / BOM / noncharacter code-unit "
            "soups and random bytes (corrupted, truncated to odd lengths, shifted by one byte), and against the codec crate's RAW decoder fed in "
            "1-4 pieces cut at random positions (processed count, characters, error kind and upto of every feed and of the finish: the "
            "pending-byte / pending-surrogate state); the UTF-8 and UTF-16 ENCODER models against String contents, utils::encode and "
            "str::encode_utf16, and utf8_chars against str::chars, on corpus text and boundary code points of every encoded length; and "
            "Model/Codecs.v BY ENCODING NAME (what DETECTFULL decodes with) against the helper in strict / test-only / chunk mode for every "
            "supported name -- every name outside the 8 CJK codecs must be modelled; thorough tier only: EVERY byte string of length 1 and 2 (and the 3- / 4-byte rows "
            "where overlong forms, surrogates and the upper limit sit) through the UTF-8 and UTF-16 models, every surrogate-boundary pair of code units, and the "
            "encoders on every 257th scalar value plus all length boundaries; non-trivial = successful decodes",
    "assumptions": ["clause (a) 'helper = codec' is definitional in the model (two copies of one loop): its tie is the decode correspondence",
                    "CJK and UTF-16 decoders are compared helper-vs-crate only (not modelled)"],
    "trusted": [],
}


PROPS["C11"] = {
    "module": "PropC11",
    "theorems": ["C11_call_transparent", "C11_history_transparent", "C11_keys_cover_all_arguments", "C11_declarations_pinned"],
    "runs": [{"level": "memo", "args_quick": ["--histories", "40"], "args_thorough": ["--histories", "2000"]}, CD_RUN],
    "search": {"level": "memo", "args": ["--histories", "400"]},
    "rule": "a pool of ~120 (input, settings) pairs built from 20 texts (corpus texts in various encodings, 'messy prefix of 24..127 characters + one long word' inputs whose "
            "early exit falls inside a word, prose with symbols / digits / accents inserted into words): each text with default settings, another chaos "
            "threshold, another language threshold, other window parameters, an exclude filter, and a prefix of itself (so that decoded "
            "chunks are shared while one setting differs); cold-cache reference per pair, computed in a FRESH thread (pristine thread-local state); 40 random histories of 20-60 calls from the pool "
            "on initially flushed caches, one in three with > 2300 distinct filler chunks pushed through the 2048-entry caches in the middle "
            "(eviction); every call must equal its cold reference; a 400-call sequence of the UNCACHED mess_ratio / coherence_ratio bodies, each call against the "
            "same call in a fresh thread (hidden state of any kind); plus the memoised mess_ratio / coherence_ratio against their uncached "
            "bodies on 300 texts under alternating thresholds",
    "assumptions": ["the memoised functions are deterministic (C03)", "the expansion shape of cached_proc_macro 0.25.0 is read from its source, pinned by version"],
    "trusted": [],
}

PROPS["C12"] = {
    "module": "PropC12",
    "theorems": ["C12_safety", "C12_invariant", "C12_progress", "C12_done_when_no_work"],
    "runs": [{"level": "threads", "args_quick": ["--rounds", "12"], "args_thorough": ["--rounds", "400"]}],
    "search": {"level": "threads", "args": ["--rounds", "80"]},
    "rule": "12 rounds: caches flushed, then 2 / 3 / 8 / 16 / 64 threads released together by a barrier, each running 3-4 detections "
            "(even rounds: all threads the SAME input -- maximal contention on the same missing cache entries; odd rounds: overlapping "
            "inputs from a pool of 48 (input, settings) pairs); every result compared with the serial cold-cache reference; completion "
            "under a 120 s watchdog; a serial call after each round checks that no poisoned / corrupted state is left",
    "assumptions": ["OS scheduling, std::sync::Mutex, once_cell::Lazy and the memory model are NOT modelled (partial): the theorem is about the "
                    "transition system read off the #[cached] expansion; the schedules that actually arise are sampled by the thread herds"],
    "trusted": [],
}


CLI_RUN = {"level": "cli", "args_quick": ["--n", "150"], "args_thorough": ["--n", "4000"]}
CLI_RULE = ("the built `normalizer` binary (feature cli, rebuilt from the current /repo) in fresh scratch directories: 1-3 input files "
            "(empty, ASCII, binary, UTF-8 with / without BOM, texts in 10 legacy encodings) under names with no / one / several dots, sometimes "
            "a pre-existing sibling, a directory argument, a missing argument, or an input whose name IS the sibling name of another input; "
            "10 flag families incl. the three contradictory ones and thresholds inside / outside [0,1]; directory snapshot before / after, "
            "exit status and stdout compared with Model/Cli.v run on the same flags and files (its library oracle answered by the in-process "
            "library): files written with content, status, report kind, every field of every record; and the property statements checked "
            "directly, the content of a normalised file against the CODEC CRATE's strict decode of the original bytes (not the library's own text); "
            "three fixed size cases without riders: one legacy file of 500,001..900,000 bytes (normalise), one ASCII head of 500,000+ bytes followed by "
            "windows-1251 text, > 1 MB (report), one legacy file > 1 MB (normalise); up to three short legacy phrases screened (through the public API) for a NON-TRANSITIVE chain in their result list -- a later match pairwise preferred to the first -- under a plain, a --minimal and a --normalize invocation; non-trivial = well-formed invocations on readable inputs")

PROPS["C14"] = {
    "module": "PropC14",
    "theorems": ["C14_from_path_delegates"],
    "model_targets": ["Model/Cli.vo"],
    "runs": [{"level": "path", "args_quick": ["--n", "120"], "args_thorough": ["--n", "3000"]}],
    "search": {"level": "path", "args": ["--n", "600"]},
    "rule": "real files of sizes 0, 1, steps*chunk_size-1 / +0 / +1, corpus files, > 1 MB, under default and random settings: from_path vs "
            "from_bytes(read) signatures; failure kinds: missing, directory, path through a regular file, dangling symlink, symlink to a "
            "file, mode-000 file read by a child process that dropped to uid 65534 (setpriv); the same failure kinds spelled without a final "
            "component or with dot / slash riders ('..', '.', '/', '', 'dir/..', 'dir/.', 'missing/..', trailing slash on a directory / a missing "
            "path / a regular file, a non-UTF-8 name); every call under catch_unwind",
    "assumptions": ["partial: std::fs / the operating system are not modelled; the theorem is near-definitional"],
    "trusted": [],
}

PROPS["C15"] = {
    "module": "PropC15",
    "theorems": ["C15_no_normalize_no_change", "C15_inputs_unchanged", "C15_unrelated_paths_unchanged", "C15_every_write", "C15_sibling_name",
                 "C15_written_file_is_the_utf8_form_of_the_strict_decode"],
    "model_targets": ["Model/Cli.vo"],
    "needs_cli": True,
    "runs": [CLI_RUN],
    "search": {"level": "cli", "args": ["--n", "800"]},
    "rule": CLI_RULE,
    "assumptions": ["std::fs, clap, dialoguer (no terminal: confirmation = no) are outside the model; file system = finite map of canonical paths"],
    "trusted": [],
}

PROPS["C16"] = {
    "module": "PropC16",
    "theorems": ["C16_bad_invocation_rejected", "C16_report_shape", "C16_missing_file", "C16_error_means_no_report", "C16_records_from_library"],
    "model_targets": ["Model/Cli.vo"],
    "needs_cli": True,
    "runs": [CLI_RUN, NAMES_RUN],
    "search": {"level": "cli", "args": ["--n", "800"]},
    "rule": CLI_RULE,
    "assumptions": ["clap parsing and serde_json rendering are outside the model (the JSON text is parsed back and compared field by field)",
                    "the CLI's byte-identical output across launches (C03 clause) is exercised by this level's repeated invocations only indirectly"],
    "trusted": [],
}


# optional sections of the translator and the properties whose models / theorems depend on them (every other construct
# the translator reads is needed by all properties: failing to recognise it breaks them all)
SECTION_USERS = {
    "utf8_alloc": ["C11"],                       # capacity of the per-character memo
    "cached": ["C11", "C12"],                    # #[cached] declarations (memo keys, sizes, sync_writes)
    "regex": ["C06"],                            # the declaration expression
    "md": ["C04", "C03"],                        # detector bank, periods, plugin literals, flag bits (Model/Md.v)
    "assets": ["C10", "C19", "C04", "C03"],      # language alphabets and the encoding -> language table
}


def _tok(line):
    return line.split(" ")


def projection(pid, lines):
    """the part of a detection signature (see harness/src/sig.rs) the property's theorem is about;
    model and implementation must agree on it"""
    if not lines:
        return lines
    head = _tok(lines[0])
    out = []
    if pid == "C02":
        return [head[1] if len(head) > 1 else ""]
    if pid in ("C09", "C10", "C13", "C03", "C11", "C12", "C19", "C08", "C06"):
        return lines
    out.append(" ".join(head[:3]) if pid != "C05" else lines[0])
    for l in lines[1:]:
        t = _tok(l)
        if t[0] in ("M", "S"):
            # M enc chaos bom coh thash tlen nsub
            if pid in ("C01", "C18"):
                out.append((t[0], t[1], t[5], t[6]))
            elif pid == "C04":
                out.append((t[0], t[1], t[2]))
            elif pid == "C05":
                out.append((t[0], t[1]))
            elif pid == "C07":
                out.append((t[0], t[1], t[3], t[5], t[6]))
            else:
                out.append(tuple(t))
        elif t[0] == "A":
            # A cohbits mbu chaos% coh% mpl langs ranges suitable
            if pid == "C04":
                out.append(("A", t[1], t[3], t[4]))
            elif pid in ("C01", "C05", "C07", "C18"):
                out.append(("A", t[8]))
            else:
                out.append(tuple(t))
        else:
            out.append(l)
    return out
