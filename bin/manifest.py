#!/usr/bin/env python3
"""regenerates MANIFEST.json from bin/propcfg.py + the per-property texts below"""
import json, os, sys
sys.path.insert(0, os.path.dirname(os.path.abspath(__file__)))
from propcfg import PROPS
VERIF = os.path.dirname(os.path.dirname(os.path.abspath(__file__)))
ids = [json.loads(l)['id'] for l in open(os.path.join(VERIF, 'properties.jsonl'))]
TEXT = json.load(open(os.path.join(VERIF, 'bin', 'manifest_text.json')))
checks = []
na = []
for i in ids:
    if i in PROPS and i in TEXT:
        t = TEXT[i]
        checks.append({
            "property_id": i,
            "quick_cmd": "bin/check %s --tier quick" % i,
            "thorough_cmd": "bin/check %s --tier thorough" % i,
            "evidence_file": "/verif/evidence/%s.json" % i,
            "replay_cmd_template": "bin/check %s --replay {path}" % i,
            "engine": "coq-proof+correspondence",
            "level_claimed": {"category": "proof", "text": t["text"], "design_ref": t.get("design_ref", "DESIGN.md section 5")},
            "level_note": t["note"],
            "technique": t["technique"],
        })
    else:
        na.append({"property_id": i, "reason": TEXT.get("_na", {}).get(i, "check not built yet (work in progress; DESIGN.md section 5 has the plan)")})
m = {
    "version": 1,
    "setup_cmd": "bin/setup",
    "hooks": {
        "guard": "verif-hooks",
        "enable": "cargo feature verif-hooks: harness/Cargo.toml depends on /repo with features=[\"verif-hooks\"]",
        "baseline_off_cmd": "cd /repo && cargo test --workspace --no-fail-fast --offline",
        "source_commits": ["241c310", "3206da4", "6750664", "18de3e4"],
        "add_only": True,
    },
    "engines": [{"name": "coq-proof+correspondence", "path": "/verif/bin/check",
                 "serves_properties": [c["property_id"] for c in checks],
                 "kind_free_text": "Coq 8.16 theorems over a hand-written Gallina model + generated tables (translator), tied to /repo by differential correspondence of the extracted model (OCaml) against the real library (Rust harness serving the model's oracles with the real primitives)"}],
    "checks": checks,
    "not_applicable": na,
    "notes": "See DESIGN.md. known_findings.json lists D1 (C01, cannot be repaired without breaking the pinned suite: the suite encodes the defect) and the seven fix: commits in /repo (731ed53, da3e440, ab19220, 048e3ff, daf7c42, 10e7b07, ed52ae4). seeded/ holds 42 seeded changes, 8 reverse patches of fixes and 4 behaviour-preserving refactorings with the checks that catch / stay silent on them (bin/seed_regression re-runs them all).",
}
json.dump(m, open(os.path.join(VERIF, 'MANIFEST.json'), 'w'), indent=1)
print("manifest:", len(checks), "checks,", len(na), "not claimed")
