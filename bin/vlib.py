"""Shared machinery of the checks: build steps (translator, Coq, extraction, driver, harness),
proof-obligation accounting, decision rule, evidence and replay files."""
import fcntl
import glob
import hashlib
import json
import os
import re
import subprocess
import sys
import time

VERIF = os.path.dirname(os.path.dirname(os.path.abspath(__file__)))
REPO = os.environ.get("VERIF_REPO", "/repo")
BUILD = os.path.join(VERIF, "_build")
COQ = os.path.join(VERIF, "coq")
EXTRACTED = os.path.join(BUILD, "extracted")
HARNESS = os.path.join(BUILD, "target", "release", "verif-harness")
DRIVER = os.path.join(EXTRACTED, "driver")
TABLES_JSON = os.path.join(BUILD, "tables.json")
REPLAYS = os.path.join(BUILD, "replays")

ALLOWED_AXIOMS = {
    # standard-library axioms that Flocq's real-number proofs depend on (named in DESIGN.md §3)
    "ClassicalDedekindReals.sig_forall_dec",
    "ClassicalDedekindReals.sig_not_dec",
    "FunctionalExtensionality.functional_extensionality_dep",
    "Classical_Prop.classic",
}

FORBIDDEN = re.compile(
    r"\b(Admitted|admit|Axiom|Axioms|Parameter|Parameters|Conjecture|Conjectures|Abort All)\b"
    r"|Unset\s+Guard|Unset\s+Positivity|Unset\s+Universe|bypass_check|Admit\s+Obligations|-type-in-type|-impredicative-set")


def sh(cmd, cwd=None, timeout=1800, env=None):
    e = dict(os.environ)
    e["CARGO_NET_OFFLINE"] = "true"
    if env:
        e.update(env)
    try:
        p = subprocess.run(cmd, cwd=cwd, shell=isinstance(cmd, str), stdout=subprocess.PIPE,
                           stderr=subprocess.STDOUT, timeout=timeout, env=e)
        return p.returncode, p.stdout.decode("utf-8", "replace")
    except subprocess.TimeoutExpired as ex:
        return 124, (ex.stdout or b"").decode("utf-8", "replace") + "\nTIMEOUT"


class Lock:
    def __enter__(self):
        os.makedirs(BUILD, exist_ok=True)
        self.f = open(os.path.join(BUILD, ".lock"), "w")
        fcntl.flock(self.f, fcntl.LOCK_EX)
        return self

    def __exit__(self, *a):
        fcntl.flock(self.f, fcntl.LOCK_UN)
        self.f.close()


def file_hash(paths):
    h = hashlib.sha256()
    for p in sorted(paths):
        h.update(p.encode())
        try:
            h.update(open(p, "rb").read())
        except OSError:
            h.update(b"<missing>")
    return h.hexdigest()


class Broken(Exception):
    """a build step / proof obligation / correspondence that no longer checks"""

    def __init__(self, what, detail=""):
        super().__init__(what)
        self.what = what
        self.detail = detail


def run_translator():
    rc, out = sh([sys.executable, os.path.join(VERIF, "translator", "gen_tables.py"), REPO,
                  os.path.join(COQ, "Gen", "Tables.v"), TABLES_JSON])
    if rc != 0:
        raise Broken("translator: a source construct is no longer recognised", out[-2000:])
    return out.strip()


def coq_sources():
    vs = []
    for d in ("Gen", "Model", "Proofs", "Props"):
        vs += sorted(glob.glob(os.path.join(COQ, d, "*.v")))
    return [v for v in vs if not v.endswith("Extract.v")]


def grep_forbidden():
    bad = []
    for v in coq_sources() + [os.path.join(COQ, "Model", "Extract.v")]:
        txt = open(v, encoding="utf-8").read()
        # strip comments (non nested handling good enough: nested comments are not used)
        txt2 = re.sub(r"\(\*.*?\*\)", "", txt, flags=re.S)
        for m in FORBIDDEN.finditer(txt2):
            bad.append("%s: %s" % (os.path.relpath(v, VERIF), m.group(0)))
    if bad:
        raise Broken("forbidden construct in the Coq development", "\n".join(bad))


def ensure_makefile():
    vs = [os.path.relpath(v, COQ) for v in coq_sources()]
    stamp = os.path.join(COQ, ".filelist")
    cur = "\n".join(vs)
    if not os.path.exists(os.path.join(COQ, "Makefile")) or not os.path.exists(stamp) or open(stamp).read() != cur:
        rc, out = sh(["coq_makefile", "-f", "_CoqProject", "-o", "Makefile"] + vs, cwd=COQ)
        if rc != 0:
            raise Broken("coq_makefile failed", out[-2000:])
        open(stamp, "w").write(cur)


def coq_make(targets, timeout=1500):
    ensure_makefile()
    t0 = time.time()
    rc, out = sh(["make", "-j16"] + targets, cwd=COQ, timeout=timeout)
    if rc != 0:
        # name the file that failed
        m = re.findall(r'File "\./([^"]+)", line (\d+)', out)
        where = ", ".join("%s:%s" % x for x in m[:3])
        raise Broken("proof obligation no longer checks (coqc failed at %s)" % (where or "?"), out[-3000:])
    return time.time() - t0


def count_obligations(vfiles):
    """theorems / lemmas / examples with a completed proof in the given files"""
    n = 0
    names = []
    for v in vfiles:
        txt = open(v, encoding="utf-8").read()
        txt = re.sub(r"\(\*.*?\*\)", "", txt, flags=re.S)
        for m in re.finditer(r"^\s*(Theorem|Lemma|Example|Corollary|Fact|Remark)\s+(\w+)", txt, re.M):
            n += 1
            names.append(m.group(2))
    return n, names


def coq_deps(vfile):
    """transitive local dependencies of a .v file (by its Require lines)"""
    seen = []
    todo = [vfile]
    while todo:
        f = todo.pop()
        if f in seen or not os.path.exists(f):
            continue
        seen.append(f)
        txt = open(f, encoding="utf-8").read()
        for m in re.finditer(r"From\s+(Gen|Model|Proofs|Props)\s+Require\s+(?:Import|Export)?\s*([^.]+)\.", txt):
            for mod in m.group(2).split():
                todo.append(os.path.join(COQ, m.group(1), mod + ".v"))
    return seen


def print_assumptions(prop_module, theorems):
    """re-check `Print Assumptions` of every property theorem against the allow-list"""
    d = os.path.join(BUILD, "assum")
    os.makedirs(d, exist_ok=True)
    f = os.path.join(d, "A_%s.v" % prop_module)
    with open(f, "w") as fh:
        fh.write("From Props Require Import %s.\n" % prop_module)
        for t in theorems:
            fh.write('Goal True. idtac "@@ %s". exact I. Qed.\nPrint Assumptions %s.\n' % (t, t))
    rc, out = sh(["coqc", "-Q", "Gen", "Gen", "-Q", "Model", "Model", "-Q", "Proofs", "Proofs", "-Q", "Props", "Props", f],
                 cwd=COQ, timeout=600)
    if rc != 0:
        raise Broken("property theorem missing or not checkable in Props/%s.v" % prop_module, out[-2000:])
    res = {}
    cur = None
    for line in out.splitlines():
        if line.startswith("@@ "):
            cur = line[3:].strip()
            res[cur] = []
        elif cur is not None:
            m = re.match(r"^([A-Za-z_][\w.]*)\s*:", line)
            if line.strip().startswith("Closed under the global context"):
                res[cur] = []
            elif line.strip() == "Axioms:":
                pass
            elif m and not line.startswith(" "):
                res[cur].append(m.group(1))
    bad = []
    for t, ax in res.items():
        for a in ax:
            if a not in ALLOWED_AXIOMS:
                bad.append("%s depends on %s" % (t, a))
    if bad or set(res.keys()) != set(theorems):
        raise Broken("Print Assumptions outside the allow-list", "\n".join(bad) or out[-1500:])
    return res


def run_coqchk(prop_module):
    """thorough tier: re-check the compiled property file and everything it depends on with Coq's independent checker
    and compare the axioms it reports (for ALL loaded libraries) with the allow-list"""
    rc, out = sh(["coqchk", "-silent", "-o", "-Q", "Gen", "Gen", "-Q", "Model", "Model", "-Q", "Proofs", "Proofs", "-Q", "Props", "Props",
                  "Props." + prop_module], cwd=COQ, timeout=1700)
    if rc != 0:
        raise Broken("coqchk rejects the compiled development of Props/%s" % prop_module, out[-2000:])
    axioms, on = [], False
    for line in out.splitlines():
        if line.startswith("* Axioms:"):
            on = True
            rest = line[len("* Axioms:"):].strip()
            if rest and rest != "<none>":
                axioms.append(rest)
            continue
        if on:
            if line.startswith("* ") or not line.strip():
                on = False if line.startswith("* ") else on
                continue
            axioms.append(line.strip())
    bad = [a for a in axioms if not any(a.endswith(ok) for ok in ALLOWED_AXIOMS)]
    if bad:
        raise Broken("coqchk reports axioms outside the allow-list", "\n".join(bad))
    return axioms


def build_driver():
    os.makedirs(EXTRACTED, exist_ok=True)
    srcs = sorted(glob.glob(os.path.join(COQ, "Model", "*.v"))) + [os.path.join(COQ, "Gen", "Tables.v"),
                                                                  os.path.join(VERIF, "ocaml", "driver.ml")]
    h = file_hash(srcs)
    stamp = os.path.join(EXTRACTED, ".stamp")
    if os.path.exists(DRIVER) and os.path.exists(stamp) and open(stamp).read() == h:
        return False
    for f in glob.glob(os.path.join(EXTRACTED, "*.ml*")) + glob.glob(os.path.join(EXTRACTED, "*.cm*")) + glob.glob(os.path.join(EXTRACTED, "*.o")):
        os.remove(f)
    rc, out = sh(["coqc", "-Q", os.path.join(COQ, "Gen"), "Gen", "-Q", os.path.join(COQ, "Model"), "Model",
                  os.path.join(COQ, "Model", "Extract.v")], cwd=EXTRACTED, timeout=900)
    if rc != 0:
        raise Broken("extraction failed", out[-2000:])
    import shutil
    shutil.copy(os.path.join(VERIF, "ocaml", "driver.ml"), os.path.join(EXTRACTED, "driver.ml"))
    rc, out = sh("ocamlfind ocamlopt -w -a -o driver $(ocamlfind ocamldep -sort *.ml *.mli 2>/dev/null)", cwd=EXTRACTED, timeout=900)
    if rc != 0:
        raise Broken("driver does not compile against the extracted model", out[-2000:])
    n = cross_check_extraction()
    open(os.path.join(EXTRACTED, ".crosscheck"), "w").write("%d" % n)
    open(stamp, "w").write(h)
    return True


def _coq_str(x):
    return '"' + x.replace('"', '""') + '"'


def _coq_bytes(b):
    return "[" + "; ".join(str(c) for c in b) + "]%N"


def cross_check_extraction(seed=1):
    """The extracted OCaml code + the hand-written driver against the SAME definitions evaluated inside Coq
    (vm_compute) on a sample of oracle-free commands: canonical names, pairwise key comparison on bit patterns,
    the suspicious-range rule, single-byte languages, the declaration matcher, the UTF-8 and single-byte
    decoders, the UTF-16 helper, the Unicode encoders, str::chars and the codecs by name.  Returns the number of cases compared."""
    import random, subprocess
    rnd = random.Random(seed)
    tj = json.load(open(os.path.join(BUILD, "tables.json")))
    labels = [l for l, _ in tj["LABELS"]]
    names = [r[0] for r in tj["UNICODE_RANGES"]]
    cmds, exprs = [], []
    hx = lambda b: (b.hex() if b else "-")
    # 1. iana_name
    pool = rnd.sample(labels, 25) + ["ascii", "ISO-8859-1", " utf8 ", "Latin1", "x-nope", "", "hz", "KOI8-RU", "utf-16le", "replacement"]
    for l in pool:
        cmds.append("NAME " + hx(l.encode()))
        exprs.append(('match iana_name %s with Some n => @SOME n | None => @NONE end' % _coq_str(l), "name"))
    # 2. cmp_key on bit patterns around the thresholds
    vals = [0, 0x80000000, 0x3c23d70a, 0x3c23d70b, 0x3ca3d70a, 0x3dcccccd, 0x3e4ccccd, 0x3f000000, 0x3f800000, 0x7f800000, 0x7fc00000, 0x34000000, 0x3c03126f]
    for _ in range(40):
        k = [rnd.choice(vals) for _ in range(6)]
        cmds.append("CMP " + " ".join(str(x) for x in k))
        exprs.append(("cmp_key F32ops (of_bits32 %d, of_bits32 %d, of_bits32 %d) (of_bits32 %d, of_bits32 %d, of_bits32 %d)" % tuple(k), "cmp"))
    # 3. suspicious rows
    for a in rnd.sample(names, 6) + [None]:
        cmds.append("SUSPROW " + (hx(a.encode()) if a else "-"))
        exprs.append(("map (fun ob => suspicious %s ob) (None :: map (fun r => Some (fst (fst r))) UNICODE_RANGES)" % ("(Some %s)" % _coq_str(a) if a else "None"), "row"))
    # 4. single-byte languages
    for e in ["windows-1251", "iso-8859-7", "windows-1252", "koi8-r", "utf-8", "windows-874"]:
        cmds.append("SBLM " + hx(e.encode()))
        exprs.append(("sb_langs32 %s" % _coq_str(e), "strs"))
    # 5. declarations
    for d in [b'<meta charset="utf-8">', b"# -*- coding: latin-1 -*-", b"encoding=KOI8-R", b"charset = nope charset=cp1251", b"no declaration here", b"coding:::::::::::x"]:
        cmds.append("DECL " + hx(d))
        exprs.append(("match any_specified_encoding %s with Some n => @SOME n | None => @NONE end" % _coq_bytes(d), "name"))
    # 6. decoders
    for b in [b"h\xc3\xa9llo", b"\xa9\xa9abc\xe4\xbd", b"\xf0\x9f\x98\x80x", b"\xed\xa0\x80", b"abc", b"\xc3"]:
        for mode in ["STRICT", "CHUNK", "TEST"]:
            cmds.append("U8 %s %s" % (mode, hx(b)))
            exprs.append(("helper utf8_decoder [239; 191; 189]%%N %s Strict %s %s true" % (_coq_bytes(b), "true" if mode == "TEST" else "false", "true" if mode == "CHUNK" else "false"), "u8"))
    # 7. UTF-16 helper, encoders, str::chars, codecs by name (Model/Utf.v, Codecs.v)
    for b in [b"\xff\xfeA\x00=\xd8\x00\xde", b"A\x00\x00\xd8A\x00", b"A\x00\x00\xdcA", b"\x00\xd8", b"", b"\xfe\xff\x00A\xd8=\xde\x00\x00"]:
        for bo in ["LE", "BE"]:
            for mode in ["STRICT", "CHUNK", "REPLACE", "IGNORE"]:
                cmds.append("U16 %s %s %s" % (bo, mode, hx(b)))
                trap = {"REPLACE": "(Replace [])", "IGNORE": "Ignore"}.get(mode, "Strict")
                exprs.append(("utf16_helper %s %s %s false %s" % ("true" if bo == "BE" else "false", _coq_bytes(b), trap, "true" if mode == "CHUNK" else "false"), "u16"))
    for t in [[65, 233, 0x4f60, 0x1f600, 0xfeff], [], [0x7ff, 0x800, 0xffff, 0x10000, 0x10ffff, 0xd7ff, 0xe000]]:
        cps = ",".join(str(c) for c in t) if t else "-"
        lst = "[%s]%%N" % "; ".join(str(c) for c in t)
        for form, fn in [("8", "utf8_encode"), ("16LE", "utf16_encode false"), ("16BE", "utf16_encode true")]:
            cmds.append("UENC %s %s" % (form, cps))
            exprs.append(("%s %s" % (fn, lst), "bytes"))
        u8 = "".join(chr(c) for c in t).encode("utf-8")
        cmds.append("U8CHARS " + hx(u8))
        exprs.append(("utf8_chars %s" % _coq_bytes(u8), "cps"))
        # the driver's hand-written UTF-8 glue against the Coq definitions
        cmds.append("GLUE8 " + hx(u8))
        exprs.append(("utf8_chars %s" % _coq_bytes(u8), "cps"))
        cmds.append("GLUE8E " + cps)
        exprs.append(("utf8_encode %s" % lst, "bytes"))
    for e, b in [("windows-1251", b"\xcf\xf0\xe8\xe2\xe5\xf2"), ("iso-8859-7", b"\xd7\xe1\xdf\xf1\xe5\xae"), ("utf-8", b"h\xc3\xa9"), ("utf-16be", b"\x00A\x00"),
                 ("windows-1252", b"\x81"), ("koi8-r", b"abc\xc1")]:
        for mode in ["STRICT", "CHUNK"]:
            cmds.append("CODEC %s %s %s" % (hx(e.encode()), mode, hx(b)))
            exprs.append(("match modelled_codec %s with Some k => %s k %s | None => None end" % (_coq_str(e), "codec_chunk" if mode == "CHUNK" else "codec_strict", _coq_bytes(b)), "optcps"))
    p = subprocess.run([DRIVER], input="\n".join(cmds) + "\nQUIT\n", capture_output=True, text=True, timeout=300)
    outs = [l for l in p.stdout.splitlines() if l.startswith("R ")]
    if p.returncode != 0 or len(outs) != len(cmds):
        raise Broken("extraction cross-check: the driver did not answer every command", (p.stdout + p.stderr)[-1500:])
    checks = []
    for (expr, kind), out in zip(exprs, outs):
        r = out[2:]
        if kind == "name":
            if r == "NONE":
                checks.append(expr.replace("@SOME", "(fun _ => false)").replace("@NONE", "true"))
            else:
                checks.append(expr.replace("@SOME", "String.eqb %s" % _coq_str(bytes.fromhex(r).decode())).replace("@NONE", "false"))
        elif kind == "cmp":
            checks.append("match %s with %s => true | _ => false end" % (expr, {"LT": "Lt", "EQ": "Eq", "GT": "Gt"}[r]))
        elif kind == "row":
            checks.append("list_eqb Bool.eqb (%s) [%s]" % (expr, "; ".join("true" if c == "1" else "false" for c in r)))
        elif kind == "strs":
            lst = [] if r == "-" else r.split(",")
            checks.append("list_eqb String.eqb (%s) [%s]%%string" % (expr, "; ".join(_coq_str(x) for x in lst)))
        elif kind == "u8":
            if r.startswith("OK"):
                body = r[3:].strip()
                bs = b"" if body in ("", "-") else bytes.fromhex(body)
                checks.append("match %s with HOk o => list_eqb N.eqb o %s | _ => false end" % (expr, _coq_bytes(bs)))
            elif r.startswith("ERR"):
                checks.append("match %s with HErr _ => true | _ => false end" % expr)
            else:
                checks.append("match %s with HFuel => true | _ => false end" % expr)
        elif kind == "u16":
            if r.startswith("OK"):
                body = r[2:].strip()
                checks.append("match %s with HOk o => list_eqb N.eqb o [%s]%%N | _ => false end" % (expr, "; ".join(body.split(",")) if body else ""))
            elif r.startswith("ERR"):
                checks.append("match %s with HErr _ => true | _ => false end" % expr)
            else:
                checks.append("match %s with HFuel => true | _ => false end" % expr)
        elif kind == "bytes":
            checks.append("list_eqb N.eqb (%s) %s" % (expr, _coq_bytes(bytes.fromhex(r.strip()) if r.strip() not in ("", "-") else b"")))
        elif kind == "cps":
            checks.append("list_eqb N.eqb (%s) [%s]%%N" % (expr, "; ".join(r.strip().split(",")) if r.strip() else ""))
        elif kind == "optcps":
            if r.startswith("OK"):
                body = r[2:].strip()
                checks.append("match %s with Some o => list_eqb N.eqb o [%s]%%N | None => false end" % (expr, "; ".join(body.split(",")) if body else ""))
            else:
                checks.append("match %s with Some _ => false | None => true end" % expr)
    d = os.path.join(BUILD, "assum")
    os.makedirs(d, exist_ok=True)
    f = os.path.join(d, "cases.v")
    with open(f, "w") as fh:
        fh.write("From Coq Require Import List NArith ZArith String Bool.\nFrom Gen Require Import Tables.\n"
                 "From Model Require Import Base Names Flt F32 Matches Declared Decode Md SbLangs Utf Codecs.\nImport ListNotations.\nOpen Scope N_scope.\n")
        for i, c in enumerate(checks):
            fh.write("Definition case_%d : bool := %s.\n" % (i, c))
        fh.write("Definition failing : list nat := filter (fun i => negb (nth i [%s] false)) (seq 0 %d).\n" % ("; ".join("case_%d" % i for i in range(len(checks))), len(checks)))
        fh.write('Goal True. idtac "@@FAILING". exact I. Qed.\nEval vm_compute in failing.\n')
    rc, out = sh(["coqc", "-Q", "Gen", "Gen", "-Q", "Model", "Model", f], cwd=COQ, timeout=900)
    if rc != 0:
        raise Broken("extraction cross-check: cases.v does not compile", out[-2000:])
    tail = out.split("@@FAILING")[-1]
    m = re.search(r"=\s*(\[.*?\]|nil)", tail, re.S)
    if not m or (m.group(1) not in ("nil", "[]")):
        bad = m.group(1) if m else tail[-300:]
        raise Broken("extraction cross-check: the extracted program and the in-Coq evaluation disagree on cases %s" % bad,
                     "\n".join("%d: %s -> %s" % (i, cmds[i], outs[i]) for i in range(len(cmds)))[:3000])
    return len(checks)


def build_harness():
    hd = os.path.join(VERIF, "harness")
    rc, out = sh(["cargo", "build", "--release", "--offline"], cwd=hd, timeout=1700)
    if rc != 0:
        raise Broken("harness does not build against the current /repo (hooks on)", out[-3000:])


CLI_BIN = os.path.join(BUILD, "cli_target", "debug", "normalizer")


def build_cli():
    """the `normalizer` binary of the CURRENT /repo (feature cli), offline, into /verif/_build/cli_target"""
    rc, out = sh(["cargo", "build", "--offline", "--features", "cli", "--bin", "normalizer"], cwd=REPO, timeout=1700,
                 env={"CARGO_TARGET_DIR": os.path.join(BUILD, "cli_target")})
    if rc != 0 or not os.path.exists(CLI_BIN):
        raise Broken("the normalizer binary does not build (feature cli)", out[-3000:])


def run_harness(args, out_name, timeout=1700):
    os.makedirs(os.path.join(BUILD, "out"), exist_ok=True)
    outp = os.path.join(BUILD, "out", out_name)
    if os.path.exists(outp):
        os.remove(outp)
    rc, out = sh([HARNESS] + args + ["--out", outp, "--driver", DRIVER], cwd=VERIF, timeout=timeout)
    if rc != 0 or not os.path.exists(outp):
        raise Broken("correspondence run failed to complete (harness exit %d)" % rc, out[-3000:])
    return json.load(open(outp))


def write_replay(pid, n, payload):
    os.makedirs(REPLAYS, exist_ok=True)
    p = os.path.join(REPLAYS, "%s-%d.json" % (pid, n))
    json.dump(payload, open(p, "w"), indent=1)
    return p


def load_known():
    p = os.path.join(VERIF, "known_findings.json")
    if not os.path.exists(p):
        return {"findings": [], "fixed": []}
    return json.load(open(p))


def write_evidence(pid, ev):
    os.makedirs(os.path.join(VERIF, "evidence"), exist_ok=True)
    json.dump(ev, open(os.path.join(VERIF, "evidence", "%s.json" % pid), "w"), indent=1)
