#!/usr/bin/env python3
"""Translator: regenerates coq/Gen/Tables.v (and a JSON twin) from the CURRENT sources of
/repo and of the codec crate pinned by /repo/Cargo.lock.

Every construct is parsed with a purpose-built pattern; anything unrecognised is a hard
error (exit 2) -- never a silent default.  The JSON twin is diffed against facts dumped
from the running library by the harness (`harness names`), which validates this parser
on every run.

usage: gen_tables.py <repo> <out.v> <out.json>
"""
import json
import os
import re
import sys


class TranslateError(Exception):
    pass


PREV = None      # tables.json of the last successful run (for sections that stop parsing)
STALE = {}       # section -> error message


def soft(section, keys, t, fn):
    """run a parser of an OPTIONAL section: when its source construct is no longer recognised, keep the values of the last
    successful run (so that everything still builds and runs) and record the section as stale; bin/check turns a stale
    section into a broken obligation of exactly the properties whose models depend on it"""
    try:
        fn()
    except TranslateError as e:
        if PREV is not None and all(k in PREV for k in keys):
            for k in keys:
                t[k] = PREV[k]
            STALE[section] = str(e)
        else:
            raise


def die(msg):
    raise TranslateError(msg)


def strip_comments(s):
    # remove // comments that are not inside string literals (good enough for the files read)
    out = []
    i = 0
    n = len(s)
    in_str = False
    raw_hashes = None
    while i < n:
        c = s[i]
        if in_str:
            if raw_hashes is not None:
                if c == '"' and s.startswith('#' * raw_hashes, i + 1):
                    out.append(s[i:i + 1 + raw_hashes])
                    i += 1 + raw_hashes
                    in_str = False
                    raw_hashes = None
                    continue
                out.append(c)
                i += 1
                continue
            if c == '\\':
                out.append(s[i:i + 2])
                i += 2
                continue
            if c == '"':
                in_str = False
            out.append(c)
            i += 1
            continue
        if c == 'r' and re.match(r'r#*"', s[i:]):
            m = re.match(r'r(#*)"', s[i:])
            raw_hashes = len(m.group(1))
            in_str = True
            out.append(m.group(0))
            i += len(m.group(0))
            continue
        if c == '"':
            in_str = True
            out.append(c)
            i += 1
            continue
        if c == "'" and re.match(r"'(\\.|[^\\'])'", s[i:]):
            m = re.match(r"'(\\.|[^\\'])'", s[i:])
            out.append(m.group(0))
            i += len(m.group(0))
            continue
        if s.startswith('//', i):
            j = s.find('\n', i)
            if j < 0:
                j = n
            i = j
            continue
        out.append(c)
        i += 1
    return ''.join(out)


def balanced(s, start, open_c, close_c):
    """s[start] == open_c; return index after the matching close, skipping string literals"""
    assert s[start] == open_c, (s[start:start + 20], open_c)
    depth = 0
    i = start
    n = len(s)
    while i < n:
        c = s[i]
        if c == '"':
            i += 1
            while s[i] != '"':
                if s[i] == '\\':
                    i += 1
                i += 1
        elif c == open_c:
            depth += 1
        elif c == close_c:
            depth -= 1
            if depth == 0:
                return i + 1
        i += 1
    die("unbalanced %s" % open_c)


def unescape_rust_str(body):
    out = []
    i = 0
    while i < len(body):
        c = body[i]
        if c == '\\':
            d = body[i + 1]
            if d == 'x':
                out.append(chr(int(body[i + 2:i + 4], 16)))
                i += 4
            elif d == 'n':
                out.append('\n'); i += 2
            elif d == 't':
                out.append('\t'); i += 2
            elif d == 'r':
                out.append('\r'); i += 2
            elif d in '\\"\'':
                out.append(d); i += 2
            elif d == 'u':
                m = re.match(r'\\u\{([0-9a-fA-F]+)\}', body[i:])
                out.append(chr(int(m.group(1), 16)))
                i += len(m.group(0))
            else:
                die("unknown escape \\%s" % d)
        else:
            out.append(c)
            i += 1
    return ''.join(out)


STR = r'"((?:[^"\\]|\\.)*)"'


def static_body(src, name):
    """text of the initialiser of `static NAME ... = ...;` up to the balancing"""
    m = re.search(r'\bstatic\s+' + name + r'\s*:', src)
    if not m:
        die("static %s not found" % name)
    eq = src.index('=', m.end())
    # skip generics in the type (may contain '=' ? no)
    semi = eq
    # find end: balanced parens/brackets until ';' at depth 0
    depth = 0
    i = eq + 1
    while True:
        c = src[i]
        if c == '"':
            i += 1
            while src[i] != '"':
                if src[i] == '\\':
                    i += 1
                i += 1
        elif c == 'r' and re.match(r'r#+"', src[i:]):
            mm = re.match(r'r(#+)"', src[i:])
            end = src.index('"' + mm.group(1), i + len(mm.group(0)))
            i = end + len(mm.group(1))
        elif c in '([{':
            depth += 1
        elif c in ')]}':
            depth -= 1
        elif c == ';' and depth == 0:
            return src[eq + 1:i]
        i += 1


def parse_usize_static(src, name):
    m = re.search(r'\bstatic\s+' + name + r'\s*:\s*usize\s*=\s*([0-9_]+)\s*;', src)
    if not m:
        die("usize static %s not recognised" % name)
    return int(m.group(1).replace('_', ''))


def parse_str_list(body):
    """a comma separated list of string literals, nothing else"""
    items = []
    pos = 0
    body = body.strip()
    while pos < len(body):
        m = re.compile(r'\s*' + STR + r'\s*(,|$)').match(body, pos)
        if not m:
            die("not a string list: %r" % body[pos:pos + 60])
        items.append(unescape_rust_str(m.group(1)))
        pos = m.end()
    return items


def parse_map_str_vecstr(body, what):
    """HashMap::from_iter([ ("k", vec!["a", ...]), ... ]) in source order"""
    m = re.search(r'HashMap::from_iter\(\s*\[', body)
    if not m:
        die("%s: HashMap::from_iter([ not found" % what)
    start = m.end() - 1
    end = balanced(body, start, '[', ']')
    inner = body[start + 1:end - 1]
    entries = []
    pos = 0
    while True:
        mm = re.compile(r'\s*\(\s*' + STR + r'\s*,\s*vec!\s*\[').match(inner, pos)
        if not mm:
            rest = inner[pos:].strip()
            if rest not in ('', ','):
                die("%s: unrecognised entry near %r" % (what, rest[:60]))
            break
        key = unescape_rust_str(mm.group(1))
        vstart = mm.end() - 1
        vend = balanced(inner, vstart, '[', ']')
        vals = parse_str_list(inner[vstart + 1:vend - 1])
        mm2 = re.compile(r'\s*,?\s*\)\s*,?').match(inner, vend)
        if not mm2:
            die("%s: entry for %s not closed" % (what, key))
        entries.append((key, vals))
        pos = mm2.end()
    if not entries:
        die("%s: empty" % what)
    return entries


def parse_consts(repo):
    src = strip_comments(open(os.path.join(repo, 'src/consts.rs'), encoding='utf-8').read())
    t = {}
    for n in ('TOO_BIG_SEQUENCE', 'MAX_PROCESSED_BYTES', 'TOO_SMALL_SEQUENCE'):
        t[n] = parse_usize_static(src, n)

    def _alloc():
        t['UTF8_MAXIMAL_ALLOCATION'] = parse_usize_static(src, 'UTF8_MAXIMAL_ALLOCATION')
    soft('utf8_alloc', ['UTF8_MAXIMAL_ALLOCATION'], t, _alloc)
    # marks
    body = static_body(src, 'ENCODING_MARKS')
    marks = re.findall(r'\(\s*' + STR + r'\s*,\s*b"((?:[^"\\]|\\.)*)"\.as_slice\(\)\s*\)', body)
    if len(marks) != body.count('as_slice'):
        die("ENCODING_MARKS: unrecognised entry")
    if not marks:
        die("ENCODING_MARKS: empty")
    t['ENCODING_MARKS'] = [(unescape_rust_str(k), [ord(c) for c in unescape_rust_str(v)]) for k, v in marks]
    # unicode ranges
    body = static_body(src, 'UNICODE_RANGES_COMBINED')
    rng = re.findall(r'\(\s*' + STR + r'\s*,\s*([0-9_]+)\s*\.\.=\s*([0-9_]+)\s*,?\s*\)', body)
    if len(rng) != body.count('..='):
        die("UNICODE_RANGES_COMBINED: unrecognised entry")
    m = re.search(r'RangeInclusive<u32>\);\s*([0-9]+)\]', src)
    if not m or int(m.group(1)) != len(rng):
        die("UNICODE_RANGES_COMBINED: length mismatch")
    t['UNICODE_RANGES'] = [(unescape_rust_str(a), int(b.replace('_', '')), int(c.replace('_', ''))) for a, b, c in rng]
    # secondary keywords
    body = static_body(src, 'UNICODE_SECONDARY_RANGE_KEYWORD')
    m = re.search(r'HashSet::from_iter\(\s*\[', body)
    if not m:
        die("UNICODE_SECONDARY_RANGE_KEYWORD not recognised")
    e = balanced(body, m.end() - 1, '[', ']')
    t['SECONDARY_KEYWORDS'] = parse_str_list(body[m.end():e - 1])
    # regex literal
    def _regex():
        body = static_body(src, 'RE_POSSIBLE_ENCODING_INDICATION')
        lits = re.findall(r'r#"(.*?)"#', body, re.S)
        if len(lits) != 1 or 'Regex::new' not in body:
            die("RE_POSSIBLE_ENCODING_INDICATION not recognised")
        m = re.match(r'(.*)$', lits[0], re.S)
        t['RE_LITERAL'] = m.group(1)
    soft('regex', ['RE_LITERAL'], t, _regex)
    # IANA_SUPPORTED definition: the codec names it filters out.  Optional section without dependents: when the definition
    # is restructured the last good value is kept, and the resulting list is compared with the library's own IANA_SUPPORTED
    # by the names level (and implicitly by every detect-level comparison, whose probing order is this list)
    def _filtered():
        body = static_body(src, 'IANA_SUPPORTED')
        m = re.search(r'encodings\(\)\s*\.iter\(\)\s*\.filter\(\|&enc\|\s*!\[(.*?)\]\.contains\(&enc\.name\(\)\)\)\s*'
                      r'\.map\(\|&enc\|\s*enc\.whatwg_name\(\)\.unwrap_or\(enc\.name\(\)\)\)\s*\.collect\(\)', body, re.S)
        if not m:
            die("IANA_SUPPORTED: definition shape not recognised")
        t['FILTERED_NAMES'] = parse_str_list(m.group(1))
    soft('iana_filter', ['FILTERED_NAMES'], t, _filtered)
    t['ALIASES'] = parse_map_str_vecstr(static_body(src, 'IANA_SUPPORTED_ALIASES'), 'IANA_SUPPORTED_ALIASES')
    t['SIMILAR'] = parse_map_str_vecstr(static_body(src, 'IANA_SUPPORTED_SIMILAR'), 'IANA_SUPPORTED_SIMILAR')
    return t


def parse_utils(repo, t):
    src = strip_comments(open(os.path.join(repo, 'src/utils.rs'), encoding='utf-8').read())
    m = re.search(r'pub fn is_multi_byte_encoding\(name: &str\) -> bool \{\s*\[(.*?)\]\s*\.contains\(&name\)\s*\}', src, re.S)
    if not m:
        die("is_multi_byte_encoding: shape not recognised")
    t['MULTI_BYTE'] = parse_str_list(m.group(1))
    # the bodies of iana_name and is_cp_similar are NOT pattern-matched: Names.v is compared with them exhaustively (every label in
    # eight spellings, all 41 x 41 similarity pairs) by the names level on every run
    m = re.search(r'any_specified_encoding\(bytes, ([0-9_]+)\)', open(os.path.join(repo, 'src/lib.rs'), encoding='utf-8').read())
    if not m:
        die("any_specified_encoding search zone not recognised in lib.rs")
    t['SEARCH_ZONE'] = int(m.group(1).replace('_', ''))


def parse_md(repo, t):
    """mess detector: the order of the detector bank, the period table and default threshold of mess_ratio, and every
    numeric literal of every plugin (in source order) -- Model/Md.v is written for exactly these"""
    src = strip_comments(open(os.path.join(repo, 'src/md.rs'), encoding='utf-8').read())
    m = re.search(r'let mut detectors: Vec<Box<dyn MessDetectorPlugin>> = vec!\[(.*?)\];', src, re.S)
    if not m:
        die("md.rs: detector bank not recognised")
    t['MD_DETECTORS'] = re.findall(r'Box::<(\w+)>::default\(\)', m.group(1))
    if not t['MD_DETECTORS']:
        die("md.rs: empty detector bank")
    m = re.search(r'match decoded_sequence\.chars\(\)\.count\(\) \{\s*\.\.=(\d+) => (\d+),\s*(\d+)\.\.=(\d+) => (\d+),\s*_ => (\d+),\s*\}', src)
    if not m:
        die("md.rs: early_calc_period table not recognised")
    t['MD_PERIODS'] = [int(x) for x in m.groups()]
    m = re.search(r'maximum_threshold\.unwrap_or\(OrderedFloat\(([0-9.]+)\)\)', src)
    if not m:
        die("md.rs: default threshold not recognised")
    t['MD_DEFAULT_THRESHOLD'] = m.group(1)
    # the control flow of the scan (checkpoint test, early exit, trailing newline) is NOT pattern-matched here: it is covered by
    # the md correspondence (mess_ratio vs Model/Md.v bit for bit); the translator only extracts data
    psrc = strip_comments(open(os.path.join(repo, 'src/md/plugins.rs'), encoding='utf-8').read())
    lits = []
    blocks = re.split(r'impl MessDetectorPlugin for (\w+) \{', psrc)
    # blocks = [prefix, name1, body1+..., name2, ...]
    for i in range(1, len(blocks), 2):
        name, body = blocks[i], blocks[i + 1]
        # cut at the next struct / impl Default declaration
        body = re.split(r'\n(?:#\[derive|pub\(super\) struct|impl Default for)', body)[0]
        nums = re.findall(r'(?<![\w.])\d+(?:\.\d+)?(?![\w.])', body)
        lits.append((name, nums))
    if [n for n, _ in lits] != sorted(set(n for n, _ in lits), key=[n for n, _ in lits].index) or not lits:
        die("plugins.rs: plugin impl blocks not recognised")
    t['MD_LITERALS'] = lits
    ssrc = strip_comments(open(os.path.join(repo, 'src/md/structs.rs'), encoding='utf-8').read())
    flags = re.findall(r'const (\w+)\s*= 0b([01_]+);', ssrc)
    if not flags:
        die("structs.rs: flag constants not recognised")
    t['MD_FLAGS'] = [(n, len(b.replace('_', '')) - 1 - b.replace('_', '').index('1')) for n, b in flags]


def parse_assets(repo, t):
    src = strip_comments(open(os.path.join(repo, 'src/assets.rs'), encoding='utf-8').read())
    body = static_body(src, 'LANGUAGES')
    ent = re.findall(r'\(\s*Language::(\w+)\s*,\s*' + STR + r'\s*,\s*(true|false)\s*,\s*(true|false)\s*,?\s*\)', body)
    if len(ent) != body.count('Language::'):
        die("LANGUAGES: unrecognised entry")
    m = re.search(r'\(Language, &\'static str, bool, bool\);\s*([0-9]+)\]', src)
    if not m or int(m.group(1)) != len(ent):
        die("LANGUAGES: length mismatch")
    t['LANGUAGES'] = [(l, [ord(c) for c in unescape_rust_str(a)], x == 'true', y == 'true') for l, a, x, y in ent]
    body = static_body(src, 'ENCODING_TO_LANGUAGE')
    ent = re.findall(r'\(\s*' + STR + r'\s*,\s*Language::(\w+)\s*\)', body)
    if len(ent) != body.count('Language::') or not ent:
        die("ENCODING_TO_LANGUAGE: unrecognised entry")
    t['ENCODING_TO_LANGUAGE'] = [(unescape_rust_str(a), b) for a, b in ent]
    # Language enum order (entity.rs)
    src = strip_comments(open(os.path.join(repo, 'src/entity.rs'), encoding='utf-8').read())
    m = re.search(r'pub enum Language \{(.*?)\}', src, re.S)
    if not m:
        die("enum Language not found")
    t['LANGUAGE_ENUM'] = [x.strip() for x in m.group(1).split(',') if x.strip()]


def parse_cached(repo, t):
    decls = []
    for f in ('src/md.rs', 'src/cd.rs', 'src/md/structs.rs', 'src/utils.rs', 'src/lib.rs', 'src/entity.rs'):
        src = strip_comments(open(os.path.join(repo, f), encoding='utf-8').read())
        for m in re.finditer(r'#\[cached\b', src):
            i = m.end()
            attr = ''
            if src[i] == '(':
                e = balanced(src, i, '(', ')')
                attr = src[i + 1:e - 1]
                i = e
            if src[i] != ']':
                die("%s: #[cached ...] not closed" % f)
            mm = re.compile(r'\]\s*(?:#\[[^\]]*\]\s*)*(?:pub(?:\([a-z]+\))?\s+)?fn\s+(\w+)\s*\(').match(src, i)
            if not mm:
                die("%s: function under #[cached] not recognised" % f)
            fname = mm.group(1)
            ps = mm.end() - 1
            pe = balanced(src, ps, '(', ')')
            params = src[ps + 1:pe - 1]
            # split params at top-level commas
            args = []
            depth = 0
            cur = ''
            for c in params:
                if c in '<([':
                    depth += 1
                elif c in '>)]':
                    depth -= 1
                if c == ',' and depth == 0:
                    args.append(cur)
                    cur = ''
                else:
                    cur += c
            if cur.strip():
                args.append(cur)
            argl = []
            for a in args:
                am = re.match(r'\s*(?:mut\s+)?(\w+)\s*:\s*(.*\S)\s*$', a, re.S)
                if not am:
                    die("%s: parameter %r of %s not recognised" % (f, a, fname))
                argl.append((am.group(1), re.sub(r'\s+', ' ', am.group(2))))
            d = {'file': f, 'fn': fname, 'args': argl, 'size': None, 'convert': None, 'key': None,
                 'ty': None, 'sync_writes': False, 'result_fallback': False, 'time': None, 'option': False, 'result': False}
            # attribute items
            items = []
            depth = 0
            cur = ''
            instr = False
            k = 0
            while k < len(attr):
                c = attr[k]
                if instr:
                    cur += c
                    if c == '\\':
                        cur += attr[k + 1]; k += 1
                    elif c == '"':
                        # raw string terminator r#"..."#
                        instr = False
                    k += 1
                    continue
                if c == '"':
                    instr = True
                if c == ',' and depth == 0:
                    items.append(cur); cur = ''
                else:
                    cur += c
                k += 1
            if cur.strip():
                items.append(cur)
            for it in items:
                im = re.match(r'\s*(\w+)\s*(?:=\s*(.*\S))?\s*$', it, re.S)
                if not im:
                    die("%s: cached attribute item %r not recognised" % (f, it))
                k_, v_ = im.group(1), im.group(2)
                if k_ == 'size':
                    d['size'] = int(v_)
                elif k_ in ('convert', 'key', 'ty', 'create', 'time', 'name'):
                    vv = v_
                    rm = re.match(r'r#"(.*)"#$', vv, re.S) or re.match(r'"(.*)"$', vv, re.S)
                    if not rm:
                        die("%s: cached %s value not a string literal" % (f, k_))
                    if k_ in d:
                        d[k_] = rm.group(1).strip()
                elif k_ in ('sync_writes', 'result_fallback', 'option', 'result', 'with_cached_flag', 'time_refresh'):
                    d[k_] = True if v_ is None else v_
                else:
                    die("%s: unknown cached attribute %s" % (f, k_))
            decls.append(d)
    if not decls:
        die("no #[cached] declarations found")
    t['CACHED'] = decls
    # version of the macro crate
    lock = open(os.path.join(repo, 'Cargo.lock')).read()
    m = re.search(r'name = "cached_proc_macro"\nversion = "([^"]+)"', lock)
    if not m:
        die("cached_proc_macro not in Cargo.lock")
    t['CACHED_PROC_MACRO_VERSION'] = m.group(1)


def find_crate(repo, name):
    lock = open(os.path.join(repo, 'Cargo.lock')).read()
    m = re.search(r'name = "%s"\nversion = "([^"]+)"' % re.escape(name), lock)
    if not m:
        die("%s not in Cargo.lock" % name)
    ver = m.group(1)
    home = os.environ.get('CARGO_HOME', os.path.expanduser('~/.cargo'))
    base = os.path.join(home, 'registry', 'src')
    for d in sorted(os.listdir(base)):
        p = os.path.join(base, d, '%s-%s' % (name, ver))
        if os.path.isdir(p):
            return p, ver
    die("source of %s-%s not found under %s" % (name, ver, base))


def parse_encoding_crate(repo, t):
    root, ver = find_crate(repo, 'encoding')
    t['ENCODING_CRATE_VERSION'] = ver
    src = strip_comments(open(os.path.join(root, 'src/all.rs'), encoding='utf-8').read())
    consts = {}
    # singlebyte!
    for m in re.finditer(r'singlebyte!\((.*?)\);', src, re.S):
        body = m.group(1)
        if '$' in body:
            continue  # macro definition
        var = re.search(r'var=(\w+)', body).group(1)
        mod = re.search(r'mod=([\w:]+)', body).group(1)
        mm = re.search(r'name\|whatwg=' + STR, body)
        if mm:
            name = whatwg = mm.group(1)
        else:
            name = re.search(r'name=' + STR, body).group(1)
            wm = re.search(r'whatwg=Some\(' + STR + r'\)', body)
            whatwg = wm.group(1) if wm else None
        consts[var] = {'name': name, 'whatwg': whatwg, 'codec': 'singlebyte:' + mod}
    # unique!
    for m in re.finditer(r'unique!\((.*?)\);', src, re.S):
        body = m.group(1)
        if '$' in body:
            continue
        var = re.search(r'var=(\w+)', body).group(1)
        mod = re.search(r'mod=([\w:]+)', body).group(1)
        tym = re.search(r'ty=(\w+)', body)
        ty = tym.group(1) if tym else re.search(r'val=(\w+)', body).group(1)
        # find impl Encoding for <ty> in the codec file
        modfile = mod.replace('codec::', 'codec/').split('::')[0] + '.rs'
        csrc = strip_comments(open(os.path.join(root, 'src', modfile), encoding='utf-8').read())
        im = re.search(r'impl Encoding for ' + ty + r' \{(.*?)\n\}', csrc, re.S)
        selfarg = '&self'
        if not im:
            # generic encoding: `pub type TY = G<P>;` with the names in `impl <Trait> for P { fn name() ... }`
            tm = re.search(r'pub type ' + ty + r' = (\w+)<(\w+)>;', csrc)
            if not tm:
                die("impl Encoding for %s not found in %s" % (ty, modfile))
            gm = re.search(r'impl<(\w+): (\w+)> Encoding for ' + tm.group(1) + r'<\1> \{(.*?)\n\}', csrc, re.S)
            if not gm or not re.search(r'fn name\(&self\) -> &\'static str \{ <%s as %s>::name\(\) \}' % (gm.group(1), gm.group(2)), gm.group(3)) \
                    or not re.search(r'fn whatwg_name\(&self\) -> Option<&\'static str> \{ <%s as %s>::whatwg_name\(\) \}' % (gm.group(1), gm.group(2)), gm.group(3)):
                die("generic impl Encoding for %s not recognised" % tm.group(1))
            im = re.search(r'impl ' + gm.group(2) + r' for ' + tm.group(2) + r' \{(.*?)\n\}', csrc, re.S)
            if not im:
                die("impl %s for %s not found" % (gm.group(2), tm.group(2)))
            selfarg = ''
        nm = re.search(r'fn name\(' + selfarg + r'\) -> &\'static str \{ ' + STR + r' \}', im.group(1))
        if not nm:
            die("name() of %s not recognised" % ty)
        wm = re.search(r'fn whatwg_name\(' + selfarg + r'\) -> Option<&\'static str> \{ (None|Some\(' + STR + r'\)) \}', im.group(1))
        whatwg = None
        if wm and wm.group(1) != 'None':
            whatwg = wm.group(2)
        elif 'whatwg_name' in im.group(1) and not wm:
            die("whatwg_name() of %s not recognised" % ty)
        consts[var] = {'name': nm.group(1), 'whatwg': whatwg, 'codec': 'unique:' + mod + '::' + ty}
    # whatwg module consts are referenced as whatwg::X
    m = re.search(r'const ENCODINGS: &\'static \[EncodingRef\] = &\[(.*?)\];', src, re.S)
    if not m:
        die("encodings() list not recognised")
    order = [x.strip().replace('whatwg::', '') for x in m.group(1).split(',') if x.strip()]
    for v in order:
        if v not in consts:
            die("encodings(): unknown constant %s" % v)
    t['ENCODINGS'] = [(v, consts[v]['name'], consts[v]['whatwg'], consts[v]['codec']) for v in order]
    t['ENCODING_CONSTS'] = {v: consts[v] for v in consts}
    # forward tables of the single-byte codecs (byte 0x80+i -> code point, 65535 = undefined)
    sbsrc = strip_comments(open(os.path.join(root, 'src/codec/singlebyte.rs'), encoding='utf-8').read())
    if not re.search(r'if input\[i\] <= 0x7f \{\s*output\.write_char\(input\[i\] as char\);\s*\} else \{\s*let ch = \(self\.index_forward\)\(input\[i\]\);\s*if ch != 0xffff \{', sbsrc):
        die("codec/singlebyte.rs: decoder shape not recognised")
    idx_root, _idx_ver = find_crate(repo, 'encoding-index-singlebyte')
    sb = []
    for v in sorted(consts):
        c = consts[v]['codec']
        if not c.startswith('singlebyte:'):
            continue
        mod = c[len('singlebyte:'):]
        if mod.startswith('index::'):
            f = os.path.join(idx_root, mod[len('index::'):] + '.rs')
            isrc = strip_comments(open(f, encoding='utf-8').read())
            m = re.search(r'static FORWARD_TABLE: &\'static \[u16\] = &\[(.*?)\];', isrc, re.S)
            if not m or not re.search(r'pub fn forward\(code: u8\) -> u16 \{\s*FORWARD_TABLE\[\(code - 0x80\) as usize\]\s*\}', isrc):
                die("%s: forward table not recognised" % f)
            tbl = [int(x) for x in m.group(1).replace('\n', ' ').split(',') if x.strip()]
        elif mod == 'codec::singlebyte::iso_8859_1':
            if not re.search(r'pub mod iso_8859_1 \{\s*#\[inline\] pub fn forward\(code: u8\) -> u16 \{ code as u16 \}', sbsrc):
                die("iso_8859_1 forward not recognised")
            tbl = list(range(128, 256))
        elif mod == 'codec::whatwg::x_user_defined':
            wsrc = strip_comments(open(os.path.join(root, 'src/codec/whatwg.rs'), encoding='utf-8').read())
            if not re.search(r'pub fn forward\(code: u8\) -> u16 \{\s*0xf700 \| \(code as u16\)\s*\}', wsrc):
                die("x_user_defined forward not recognised")
            tbl = [0xf700 | b for b in range(128, 256)]
        else:
            die("single-byte codec module %s not recognised" % mod)
        if len(tbl) != 128:
            die("forward table of %s has %d entries" % (v, len(tbl)))
        sb.append((v, tbl))
    t['SB_TABLES'] = sb
    # labels
    src = strip_comments(open(os.path.join(root, 'src/label.rs'), encoding='utf-8').read())
    m = re.search(r'pub fn encoding_from_whatwg_label\(label: &str\) -> Option<EncodingRef> \{(.*?)\n\}', src, re.S)
    if not m:
        die("encoding_from_whatwg_label not found")
    body = m.group(1)
    tm = re.search(r"label\.trim_matches\(&\[(.*?)\]\[\.\.\]\)", body)
    if not tm:
        die("label trimming not recognised")
    trims = re.findall(r"'(\\.|\\x[0-9A-Fa-f]{2}|[^\\'])'", tm.group(1))
    t['LABEL_TRIM'] = [ord(unescape_rust_str(x)) for x in trims]
    if not re.search(r"label\.chars\(\)\.map\(\|c\| match c \{ 'A'\.\.\.'Z' => \(c as u8 \+ 32\) as char, _ => c \}\)\.collect\(\)", body):
        die("label lower-casing not recognised")
    mm = re.search(r'match &label\[\.\.\] \{(.*)_ => None', body, re.S)
    if not mm:
        die("label match not recognised")
    arms = mm.group(1)
    labels = []
    pos = 0
    arm_re = re.compile(r'\s*((?:' + STR + r'\s*\|?\s*)+)=>\s*Some\(all::((?:whatwg::)?\w+) as EncodingRef\),')
    while True:
        am = arm_re.match(arms, pos)
        if not am:
            if arms[pos:].strip():
                die("label arm not recognised near %r" % arms[pos:pos + 80])
            break
        var = am.group(3).replace('whatwg::', '')
        if var not in consts:
            die("label arm: unknown constant %s" % var)
        for lab in re.findall(STR, am.group(1)):
            labels.append((lab, var))
        pos = am.end()
    t['LABELS'] = labels
    # utf-8 DFA
    src = strip_comments(open(os.path.join(root, 'src/codec/utf_8.rs'), encoding='utf-8').read())

    def arr(name, n):
        m = re.search(r'static ' + name + r': \[u8; ' + str(n) + r'\] = \[(.*?)\];', src, re.S)
        if not m:
            die("utf_8.rs: %s not recognised" % name)
        v = [int(x) for x in re.findall(r'\d+', m.group(1))]
        if len(v) != n:
            die("utf_8.rs: %s has %d entries" % (name, len(v)))
        return v
    t['UTF8_CHAR_CATEGORY'] = arr('CHAR_CATEGORY', 256)
    m = re.search(r'static STATE_TRANSITIONS: \[u8; (\d+)\]', src)
    t['UTF8_STATE_TRANSITIONS'] = arr('STATE_TRANSITIONS', int(m.group(1)))
    for n in ('INITIAL_STATE', 'ACCEPT_STATE', 'REJECT_STATE', 'REJECT_STATE_WITH_BACKUP'):
        m = re.search(r'static ' + n + r': u8 = (\d+);', src)
        if not m:
            die("utf_8.rs: %s not recognised" % n)
        t['UTF8_' + n] = int(m.group(1))
    if not re.search(r'macro_rules! is_reject_state\(\(\$state:expr\) => \(\$state >= REJECT_STATE_WITH_BACKUP\)\);', src):
        die("utf_8.rs: is_reject_state not recognised")
    if not re.search(r'STATE_TRANSITIONS\[\(\$state \+ CHAR_CATEGORY\[\$ch as usize\]\) as usize\]', src):
        die("utf_8.rs: next_state not recognised")
    # decoder error causes over the whole crate
    causes = set()
    for dp, _, fs in os.walk(os.path.join(root, 'src')):
        for f in fs:
            if f.endswith('.rs'):
                s = open(os.path.join(dp, f), encoding='utf-8').read()
                for m in re.finditer(r'cause:\s*"([^"]+)"\.into\(\)', s):
                    causes.add(m.group(1))
    t['CODEC_ERROR_CAUSES'] = sorted(causes)


# ---------------------------------------------------------------------------------------------

def coq_str(s):
    for c in s:
        if ord(c) > 126 or ord(c) < 32:
            die("non-printable/non-ASCII character in a string meant for Coq: %r" % s)
    return '"' + s.replace('"', '""') + '"'


def coq_list(items, per_line=8, indent='  '):
    if not items:
        return '[]'
    lines = []
    for i in range(0, len(items), per_line):
        lines.append(indent + '; '.join(items[i:i + per_line]))
    return '[\n' + ';\n'.join(lines) + ']'


def coq_opt_str(s):
    return 'None' if s is None else '(Some %s)' % coq_str(s)


def emit_coq(t, path):
    o = []
    w = o.append
    w('(* GENERATED by translator/gen_tables.py from /repo and the pinned codec crate. Do not edit. *)')
    w('From Coq Require Import List NArith String.')
    w('Import ListNotations.')
    w('Open Scope string_scope.')
    w('Open Scope N_scope.')
    w('')
    for n in ('TOO_BIG_SEQUENCE', 'MAX_PROCESSED_BYTES', 'TOO_SMALL_SEQUENCE', 'UTF8_MAXIMAL_ALLOCATION', 'SEARCH_ZONE'):
        w('Definition %s : N := %d.' % (n, t[n]))
    w('')
    w('(* encodings() of the codec crate, in order: (constant, name, whatwg_name) *)')
    w('Definition ENCODINGS : list (string * string * option string) := ' +
      coq_list(['(%s, %s, %s)' % (coq_str(v), coq_str(n), coq_opt_str(wn)) for v, n, wn, _ in t['ENCODINGS']], 2) + '.')
    w('')
    w('(* every encoding constant of the codec crate that a label can reach: (constant, name, whatwg_name) *)')
    w('Definition ENCODING_CONSTS : list (string * string * option string) := ' +
      coq_list(['(%s, %s, %s)' % (coq_str(v), coq_str(c['name']), coq_opt_str(c['whatwg']))
                for v, c in sorted(t['ENCODING_CONSTS'].items())], 2) + '.')
    w('')
    w('Definition FILTERED_NAMES : list string := ' + coq_list([coq_str(x) for x in t['FILTERED_NAMES']]) + '.')
    w('')
    w('(* encoding_from_whatwg_label: (label, constant) *)')
    w('Definition LABELS : list (string * string) := ' +
      coq_list(['(%s, %s)' % (coq_str(a), coq_str(b)) for a, b in t['LABELS']], 3) + '.')
    w('Definition LABEL_TRIM : list N := ' + coq_list([str(x) for x in t['LABEL_TRIM']]) + '.')
    w('')
    w('(* IANA_SUPPORTED_ALIASES in source order (HashMap::from_iter: the last entry of a key wins) *)')
    w('Definition ALIASES : list (string * list string) := ' +
      coq_list(['(%s, %s)' % (coq_str(k), coq_list([coq_str(x) for x in v], 6, '     ')) for k, v in t['ALIASES']], 1) + '.')
    w('')
    w('Definition SIMILAR : list (string * list string) := ' +
      coq_list(['(%s, %s)' % (coq_str(k), coq_list([coq_str(x) for x in v], 6, '     ')) for k, v in t['SIMILAR']], 1) + '.')
    w('')
    w('Definition MARKS : list (string * list N) := ' +
      coq_list(['(%s, %s)' % (coq_str(k), coq_list([str(x) for x in v])) for k, v in t['ENCODING_MARKS']], 1) + '.')
    w('')
    w('Definition MULTI_BYTE : list string := ' + coq_list([coq_str(x) for x in t['MULTI_BYTE']]) + '.')
    w('')
    w('Definition UNICODE_RANGES : list (string * N * N) := ' +
      coq_list(['(%s, %d, %d)' % (coq_str(a), b, c) for a, b, c in t['UNICODE_RANGES']], 2) + '.')
    w('')
    w('Definition SECONDARY_KEYWORDS : list string := ' + coq_list([coq_str(x) for x in t['SECONDARY_KEYWORDS']]) + '.')
    w('')
    w('Definition LANGUAGE_ENUM : list string := ' + coq_list([coq_str(x) for x in t['LANGUAGE_ENUM']]) + '.')
    w('Definition LANGUAGES : list (string * list N * bool * bool) := ' +
      coq_list(['(%s, %s, %s, %s)' % (coq_str(l), coq_list([str(x) for x in a], 16, '     '),
                                      'true' if x else 'false', 'true' if y else 'false') for l, a, x, y in t['LANGUAGES']], 1) + '.')
    w('Definition ENCODING_TO_LANGUAGE : list (string * string) := ' +
      coq_list(['(%s, %s)' % (coq_str(a), coq_str(b)) for a, b in t['ENCODING_TO_LANGUAGE']], 4) + '.')
    w('')
    w('(* forward tables of the single-byte codecs of the codec crate, by encoding constant *)')
    w('Definition SB_TABLES : list (string * list N) := ' +
      coq_list(['(%s, %s)' % (coq_str(v), coq_list([str(x) for x in tb], 16, '     ')) for v, tb in t['SB_TABLES']], 1) + '.')
    w('')
    w('Definition RE_LITERAL : string := %s.' % coq_str(t['RE_LITERAL']))
    w('')
    w('(* mess detector (src/md.rs, src/md/plugins.rs, src/md/structs.rs) *)')
    w('Definition MD_DETECTORS : list string := ' + coq_list([coq_str(x) for x in t['MD_DETECTORS']], 2) + '.')
    w('Definition MD_PERIODS : list N := ' + coq_list([str(x) for x in t['MD_PERIODS']], 8) + '.')
    w('Definition MD_DEFAULT_THRESHOLD : string := %s.' % coq_str(t['MD_DEFAULT_THRESHOLD']))
    w('Definition MD_LITERALS : list (string * list string) := ' +
      coq_list(['(%s, %s)' % (coq_str(n), coq_list([coq_str(x) for x in l], 12, '     ')) for n, l in t['MD_LITERALS']], 1) + '.')
    w('Definition MD_FLAGS : list (string * N) := ' + coq_list(['(%s, %d)' % (coq_str(n), b) for n, b in t['MD_FLAGS']], 4) + '.')
    w('')
    w('Definition UTF8_CHAR_CATEGORY : list N := ' + coq_list([str(x) for x in t['UTF8_CHAR_CATEGORY']], 32) + '.')
    w('Definition UTF8_STATE_TRANSITIONS : list N := ' + coq_list([str(x) for x in t['UTF8_STATE_TRANSITIONS']], 12) + '.')
    for n in ('INITIAL_STATE', 'ACCEPT_STATE', 'REJECT_STATE', 'REJECT_STATE_WITH_BACKUP'):
        w('Definition UTF8_%s : N := %d.' % (n, t['UTF8_' + n]))
    w('Definition CODEC_ERROR_CAUSES : list string := ' + coq_list([coq_str(x) for x in t['CODEC_ERROR_CAUSES']], 4) + '.')
    w('')
    w('(* #[cached] declarations: (function, argument names, key expression (None = all arguments), size, sync_writes, result_fallback) *)')
    decls = []
    for d in t['CACHED']:
        key = d['convert'] if d['convert'] is not None else d['key']
        keyargs = None
        if d['convert'] is not None:
            km = re.match(r'\{\s*(.*?)\s*\}$', d['convert'], re.S)
            inner = km.group(1) if km else d['convert']
            # accepted shapes: a single argument name, or a tuple of (possibly cloned) argument names
            names = [a for a, _ in d['args']]
            parts = [p.strip() for p in inner.strip('()').split(',') if p.strip()]
            ka = []
            for p in parts:
                p2 = re.sub(r'\.clone\(\)$', '', p)
                if p2 not in names:
                    # not an argument itself (a projection, a cast, a hash ...): recorded as an opaque key component, so that
                    # the obligation "the key covers every argument" (C11_keys_cover_all_arguments) fails instead of the translator
                    p2 = '<' + p + '>'
                ka.append(p2)
            keyargs = ka
        decls.append('(%s, %s, %s, %s, %s, %s)' % (
            coq_str(d['fn']),
            coq_list([coq_str(a) for a, _ in d['args']]),
            'None' if keyargs is None else '(Some %s)' % coq_list([coq_str(a) for a in keyargs]),
            'None' if d['size'] is None else '(Some %d)' % d['size'],
            'true' if d['sync_writes'] else 'false',
            'true' if d['result_fallback'] else 'false'))
    w('Definition CACHED_DECLS : list (string * list string * option (list string) * option N * bool * bool) := ' +
      coq_list(decls, 1) + '.')
    w('Definition CACHED_PROC_MACRO_VERSION : string := %s.' % coq_str(t['CACHED_PROC_MACRO_VERSION']))
    w('Definition ENCODING_CRATE_VERSION : string := %s.' % coq_str(t['ENCODING_CRATE_VERSION']))
    w('')
    os.makedirs(os.path.dirname(path), exist_ok=True)
    new = '\n'.join(o)
    old = None
    if os.path.exists(path):
        old = open(path).read()
    if old != new:
        open(path, 'w').write(new)


def main():
    if len(sys.argv) != 4:
        print(__doc__)
        sys.exit(2)
    repo, outv, outj = sys.argv[1:]
    global PREV
    try:
        PREV = json.load(open(outj))
        if PREV.get('STALE'):
            PREV = None if not os.path.exists(outj + '.good') else json.load(open(outj + '.good'))
    except (OSError, ValueError):
        PREV = None
    try:
        t = parse_consts(repo)
        parse_utils(repo, t)
        soft('assets', ['LANGUAGES', 'ENCODING_TO_LANGUAGE', 'LANGUAGE_ENUM'], t, lambda: parse_assets(repo, t))
        soft('md', ['MD_DETECTORS', 'MD_PERIODS', 'MD_DEFAULT_THRESHOLD', 'MD_LITERALS', 'MD_FLAGS'], t, lambda: parse_md(repo, t))
        soft('cached', ['CACHED', 'CACHED_PROC_MACRO_VERSION'], t, lambda: parse_cached(repo, t))
        parse_encoding_crate(repo, t)
        emit_coq(t, outv)
    except TranslateError as e:
        print("TRANSLATOR-ERROR: %s" % e)
        sys.exit(2)
    os.makedirs(os.path.dirname(outj), exist_ok=True)
    t['STALE'] = STALE
    json.dump(t, open(outj, 'w'), indent=1, sort_keys=True)
    if not STALE:
        json.dump(t, open(outj + '.good', 'w'), indent=1, sort_keys=True)
    for k, v in STALE.items():
        print("TRANSLATOR-STALE: section %s: %s" % (k, v))
    print("translator: %d encodings, %d labels, %d alias keys, %d similar keys, %d ranges, %d cached decls" % (
        len(t['ENCODINGS']), len(t['LABELS']), len(t['ALIASES']), len(t['SIMILAR']), len(t['UNICODE_RANGES']), len(t['CACHED'])))


if __name__ == '__main__':
    main()
