(* Correspondence driver: runs the EXTRACTED Coq models; every oracle of the model is answered
   by the peer process (the Rust harness) with the real primitive of the library.
   Protocol: line based on stdin/stdout, fields separated by one space, byte strings and UTF-8
   text as lowercase hex ("-" for empty).  Hand-written and trusted for parsing / printing only;
   a sample of oracle-free commands is re-evaluated inside Coq (vlib.cross_check_extraction) at every build
   and must agree with this driver. *)

module SL = Stdlib.List
module SS = Stdlib.String
module B = Stdlib.Buffer

(* ---------- numbers ---------- *)
let rec pos_of_int (n : int) : BinNums.positive =
  if n = 1 then BinNums.Coq_xH
  else if n land 1 = 0 then BinNums.Coq_xO (pos_of_int (n lsr 1))
  else BinNums.Coq_xI (pos_of_int (n lsr 1))

let n_of_int (n : int) : BinNums.coq_N = if n = 0 then BinNums.N0 else BinNums.Npos (pos_of_int n)
let z_of_int (n : int) : BinNums.coq_Z =
  if n = 0 then BinNums.Z0 else if n > 0 then BinNums.Zpos (pos_of_int n) else BinNums.Zneg (pos_of_int (-n))

let rec int_of_pos (p : BinNums.positive) : int =
  match p with
  | BinNums.Coq_xH -> 1
  | BinNums.Coq_xO q -> 2 * int_of_pos q
  | BinNums.Coq_xI q -> 2 * int_of_pos q + 1

let int_of_n (n : BinNums.coq_N) : int = match n with BinNums.N0 -> 0 | BinNums.Npos p -> int_of_pos p
let int_of_z (z : BinNums.coq_Z) : int =
  match z with BinNums.Z0 -> 0 | BinNums.Zpos p -> int_of_pos p | BinNums.Zneg p -> - (int_of_pos p)

(* decimal of any size (usize values above OCaml's 63-bit int, e.g. a chunk_size of 2^63) *)
let n_of_decimal (s : string) : BinNums.coq_N =
  if Stdlib.String.length s <= 17 then n_of_int (int_of_string s)
  else begin
    let acc = ref BinNums.N0 in
    let ten = n_of_int 10 in
    Stdlib.String.iter (fun c ->
        if c < '0' || c > '9' then failwith "bad decimal";
        acc := BinNat.N.add (BinNat.N.mul !acc ten) (n_of_int (Char.code c - 48))) s;
    !acc
  end

(* shared small numbers: a 1.3 MB payload becomes a list of shared nodes *)
let small_n : BinNums.coq_N array = Array.init 0x3000 n_of_int
let n_of_int_shared (n : int) = if n < 0x3000 then small_n.(n) else n_of_int n

(* ---------- strings ---------- *)
let ascii_of_char (c : char) : Ascii.ascii =
  let n = Char.code c in
  Ascii.Ascii (n land 1 <> 0, n land 2 <> 0, n land 4 <> 0, n land 8 <> 0,
               n land 16 <> 0, n land 32 <> 0, n land 64 <> 0, n land 128 <> 0)

let char_of_ascii (a : Ascii.ascii) : char =
  match a with
  | Ascii.Ascii (b0, b1, b2, b3, b4, b5, b6, b7) ->
    let v b k = if b then k else 0 in
    Char.chr (v b0 1 + v b1 2 + v b2 4 + v b3 8 + v b4 16 + v b5 32 + v b6 64 + v b7 128)

let coq_string (s : string) : String.string =
  let r = ref String.EmptyString in
  for i = SS.length s - 1 downto 0 do r := String.String (ascii_of_char (SS.get s (i)), !r) done;
  !r

let ocaml_string (s : String.string) : string =
  let b = B.create 16 in
  let rec go s = match s with
    | String.EmptyString -> ()
    | String.String (a, r) -> B.add_char b (char_of_ascii a); go r in
  go s; B.contents b

(* ---------- hex ---------- *)
let hexdig = "0123456789abcdef"
let hex_of_string (s : string) : string =
  if s = "" then "-" else begin
    let b = B.create (2 * SS.length s) in
    SS.iter (fun c -> let n = Char.code c in B.add_char b (SS.get hexdig (n lsr 4)); B.add_char b (SS.get hexdig (n land 15))) s;
    B.contents b
  end

let nib c = match c with
  | '0'..'9' -> Char.code c - 48
  | 'a'..'f' -> Char.code c - 87
  | 'A'..'F' -> Char.code c - 55
  | _ -> failwith "bad hex"

let string_of_hex (h : string) : string =
  if h = "-" then "" else begin
    let n = SS.length h / 2 in
    let b = Bytes.create n in
    for i = 0 to n - 1 do Bytes.set b i (Char.chr (nib (SS.get h (2*i)) * 16 + nib (SS.get h (2*i+1)))) done;
    Bytes.to_string b
  end

(* bytes: coq_N list *)
let bytes_of_ocaml (s : string) : BinNums.coq_N list =
  let r = ref [] in
  for i = SS.length s - 1 downto 0 do r := small_n.(Char.code (SS.get s (i))) :: !r done;
  !r

let ocaml_of_bytes (l : BinNums.coq_N list) : string =
  let b = B.create 64 in
  SL.iter (fun n -> B.add_char b (Char.chr (int_of_n n land 255))) l;
  B.contents b

(* text: code points; wire format = UTF-8 hex *)
let text_of_utf8 (s : string) : BinNums.coq_N list =
  let n = SS.length s in
  let out = ref [] in
  let i = ref 0 in
  while !i < n do
    let c = Char.code (SS.get s (!i)) in
    let cp, l =
      if c < 0x80 then c, 1
      else if c < 0xE0 then ((c land 0x1F) lsl 6) lor (Char.code (SS.get s (!i+1)) land 0x3F), 2
      else if c < 0xF0 then ((c land 0x0F) lsl 12) lor ((Char.code (SS.get s (!i+1)) land 0x3F) lsl 6) lor (Char.code (SS.get s (!i+2)) land 0x3F), 3
      else ((c land 0x07) lsl 18) lor ((Char.code (SS.get s (!i+1)) land 0x3F) lsl 12) lor ((Char.code (SS.get s (!i+2)) land 0x3F) lsl 6) lor (Char.code (SS.get s (!i+3)) land 0x3F), 4 in
    out := n_of_int_shared cp :: !out;
    i := !i + l
  done;
  SL.rev !out

let utf8_of_text (t : BinNums.coq_N list) : string =
  let b = B.create 64 in
  SL.iter (fun n ->
      let c = int_of_n n in
      if c < 0x80 then B.add_char b (Char.chr c)
      else if c < 0x800 then (B.add_char b (Char.chr (0xC0 lor (c lsr 6))); B.add_char b (Char.chr (0x80 lor (c land 0x3F))))
      else if c < 0x10000 then (B.add_char b (Char.chr (0xE0 lor (c lsr 12))); B.add_char b (Char.chr (0x80 lor ((c lsr 6) land 0x3F))); B.add_char b (Char.chr (0x80 lor (c land 0x3F))))
      else (B.add_char b (Char.chr (0xF0 lor (c lsr 18))); B.add_char b (Char.chr (0x80 lor ((c lsr 12) land 0x3F))); B.add_char b (Char.chr (0x80 lor ((c lsr 6) land 0x3F))); B.add_char b (Char.chr (0x80 lor (c land 0x3F))))) t;
  B.contents b

(* FNV-1a 64 over the code points (4 bytes little endian each) *)
let text_hash (t : BinNums.coq_N list) : string * int =
  let h = ref 0xcbf29ce484222325L in
  let n = ref 0 in
  SL.iter (fun x ->
      let c = int_of_n x in
      incr n;
      for k = 0 to 3 do
        h := Int64.logxor !h (Int64.of_int ((c lsr (8 * k)) land 255));
        h := Int64.mul !h 0x100000001b3L
      done) t;
  (Printf.sprintf "%016Lx" !h, !n)

(* ---------- floats ---------- *)
let fo : Flt.coq_FloatOps = F32.coq_F32ops
let f_of_bits (b : int) : Flt.coq_F = Obj.magic (F32.of_bits32 (z_of_int b))
let bits_of_f (x : Flt.coq_F) : int = int_of_z (F32.to_bits32 (Obj.magic x))

(* ---------- peer ---------- *)
let ask (q : string) : string =
  print_string q; print_char '\n'; flush stdout;
  try input_line stdin with End_of_file -> exit 0

let split_sp (s : string) : string list = SS.split_on_char ' ' s

let parse_coh (s : string) : (String.string * Flt.coq_F) list =
  if s = "-" then [] else
    SL.map (fun item ->
        match SS.split_on_char ':' item with
        | [l; b] -> (coq_string l, f_of_bits (int_of_string b))
        | _ -> failwith ("bad coh item " ^ item)) (SS.split_on_char ',' s)

let print_coh (l : (String.string * Flt.coq_F) list) : string =
  if l = [] then "-" else
    SS.concat "," (SL.map (fun (la, sc) -> ocaml_string la ^ ":" ^ string_of_int (bits_of_f sc)) l)

let langs_str (l : String.string list) : string =
  if l = [] then "-" else SS.concat "," (SL.map ocaml_string l)
let parse_langs (s : string) : String.string list =
  if s = "-" then [] else SL.map coq_string (SS.split_on_char ',' s)

let opt_text_answer (a : string) : BinNums.coq_N list option =
  match split_sp a with
  | ["OK"; h] -> Some (text_of_utf8 (string_of_hex h))
  | ["ERR"] -> None
  | _ -> failwith ("bad decode answer " ^ a)

let sbl_cache : (string, String.string list) Hashtbl.t = Hashtbl.create 64

let oracles : Detect.oracles = {
  Detect.sdecode = (fun e b -> opt_text_answer (ask ("Q DEC " ^ hex_of_string (ocaml_string e) ^ " " ^ hex_of_string (ocaml_of_bytes b))));
  Detect.stest = (fun e b -> ask ("Q TEST " ^ hex_of_string (ocaml_string e) ^ " " ^ hex_of_string (ocaml_of_bytes b)) = "1");
  Detect.cdecode = (fun e b -> opt_text_answer (ask ("Q CDEC " ^ hex_of_string (ocaml_string e) ^ " " ^ hex_of_string (ocaml_of_bytes b))));
  Detect.mess = (fun t thr -> f_of_bits (int_of_string (ask ("Q MESS " ^ hex_of_string (utf8_of_text t) ^ " " ^ string_of_int (bits_of_f thr)))));
  Detect.coh = (fun t thr langs ->
      let a = ask ("Q COH " ^ hex_of_string (utf8_of_text t) ^ " " ^ string_of_int (bits_of_f thr) ^ " " ^ langs_str langs) in
      match split_sp a with
      | ["OK"; c] -> Some (parse_coh c)
      | ["ERR"] -> None
      | _ -> failwith ("bad coh answer " ^ a));
  Detect.merge = (fun ls ->
      let q = if ls = [] then "-" else SS.concat ";" (SL.map print_coh ls) in
      parse_coh (ask ("Q MERGE " ^ q)));
  (* cd::encoding_languages: computed by the model itself (Model/SbLangs.v over the generated single-byte tables),
     memoised per name; the `names` level compares it with the library for every supported name *)
  Detect.sb_langs = (fun e ->
      let k = ocaml_string e in
      match Hashtbl.find_opt sbl_cache k with
      | Some v -> v
      | None -> let v = SbLangs.sb_langs32 e in Hashtbl.add sbl_cache k v; v);
  (* the declaration matcher is the CONCRETE model (Model/Declared.v), not a query *)
  Detect.declared = (fun b -> Declared.any_specified_encoding b);
}

(* ---------- Cd model: its three oracles are queries ---------- *)
let flags_cache : (int, BinNums.coq_N) Hashtbl.t = Hashtbl.create 4096
let md_flags (cp : BinNums.coq_N) : BinNums.coq_N =
  let k = int_of_n cp in
  match Hashtbl.find_opt flags_cache k with
  | Some v -> v
  | None -> let v = n_of_int (int_of_string (ask ("Q FLAGS " ^ string_of_int k))) in Hashtbl.add flags_cache k v; v

let cd_oracles : Cd.cd_oracles = {
  Cd.layers = (fun t ->
      let a = ask ("Q LAYERS " ^ hex_of_string (utf8_of_text t)) in
      if a = "-" then [] else SL.map (fun h -> text_of_utf8 (string_of_hex h)) (SS.split_on_char ';' a));
  Cd.alphabet_langs = (fun popular inl ->
      let answer = parse_langs (ask ("Q ALPH " ^ hex_of_string (utf8_of_text popular) ^ " " ^ (if inl then "1" else "0"))) in
      (* the order among equal ratios comes from sort_unstable_by and is not modelled: the answer is validated against the
         candidate set and ratios the model computes (Model/Alph.v) *)
      if not (Alph.alph_check32 (fun cp -> md_flags cp) popular inl answer) then begin
        print_string ("V AlphOK chars=" ^ hex_of_string (utf8_of_text popular) ^ " ignore_non_latin=" ^ (if inl then "1" else "0")
                      ^ " answer=" ^ SS.concat "," (SL.map ocaml_string answer) ^ "\n"); flush stdout
      end;
      answer);
  (* cd::characters_popularity_compare: computed by the model itself (strsim::jaro in binary64, then `as f32`:
     Model/Jaro.v, Model/Jaro32.v); the cd level also compares it directly with the library *)
  Cd.popularity = (fun l popular -> Obj.magic (Jaro32.popularity32 l popular));
}

(* ---------- mess detector oracles (per-character, memoised: the answers are functions of the code point) ---------- *)
let racc_cache : (int, BinNums.coq_N) Hashtbl.t = Hashtbl.create 1024
let md_oracles : Md.md_oracles = {
  Md.char_flags = md_flags;
  Md.unaccent = (fun cp ->
      let k = int_of_n cp in
      match Hashtbl.find_opt racc_cache k with
      | Some v -> v
      | None -> let v = n_of_int (int_of_string (ask ("Q RACC " ^ string_of_int k))) in Hashtbl.add racc_cache k v; v);
}

(* ---------- alpha_unicode_split oracles (std Unicode tables), memoised per code point ---------- *)
let alpha_cache : (int, bool) Hashtbl.t = Hashtbl.create 4096
let lower_cache : (int, BinNums.coq_N list) Hashtbl.t = Hashtbl.create 4096
let layer_alpha (cp : BinNums.coq_N) : bool =
  let k = int_of_n cp in
  match Hashtbl.find_opt alpha_cache k with
  | Some v -> v
  | None -> let v = (ask ("Q ISALPHA " ^ string_of_int k) = "1") in Hashtbl.add alpha_cache k v; v
let layer_lower (cp : BinNums.coq_N) : BinNums.coq_N list =
  let k = int_of_n cp in
  match Hashtbl.find_opt lower_cache k with
  | Some v -> v
  | None -> let v = text_of_utf8 (string_of_hex (ask ("Q LOWER " ^ string_of_int k))) in Hashtbl.add lower_cache k v; v

(* ---------- printing matches ---------- *)
let print_match_line (tag : string) (m : Matches.cmatch) : unit =
  match m with
  | Matches.CM (_payload, e, chaos, coh, bom, sub, txt) ->
    let th, tl = match txt with None -> ("NONE", 0) | Some t -> text_hash t in
    Printf.printf "%s %s %d %d %s %s %d %d\n" tag (hex_of_string (ocaml_string e)) (bits_of_f chaos)
      (if bom then 1 else 0) (print_coh coh) th tl (SL.length sub)

let print_accessors (m : Matches.cmatch) : unit =
  let mpl = Matches.most_probably_language fo oracles.Detect.sb_langs m in
  let ranges = Matches.unicode_ranges fo m in
  Printf.printf "A %d %d %d %d %s %s %s %s\n"
    (bits_of_f (Matches.coherence fo m)) (bits_of_f (Matches.multi_byte_usage fo m))
    (bits_of_f (Matches.chaos_percents fo m)) (bits_of_f (Matches.coherence_percents fo m))
    (ocaml_string mpl)
    (langs_str (Matches.languages fo m))
    (if ranges = [] then "-" else SS.concat "|" (SL.map (fun r -> hex_of_string (ocaml_string r)) ranges))
    (SS.concat "," (SL.map (fun s -> hex_of_string (ocaml_string s)) (Matches.suitable_encodings fo m)))

let print_result (r : Matches.cmatch list Base.res) : unit =
  (match r with
   | Base.Ok l ->
     Printf.printf "R OK %d\n" (SL.length l);
     SL.iter (fun m ->
         print_match_line "M" m;
         print_accessors m;
         (match m with Matches.CM (_, _, _, _, _, sub, _) -> SL.iter (print_match_line "S") sub)) l
   | Base.Err msg -> Printf.printf "R ERR %s\n" (hex_of_string (ocaml_string msg))
   | Base.Panic site -> Printf.printf "R PANIC %s\n" (hex_of_string (ocaml_string site)));
  print_string "END\n"; flush stdout

(* ---------- commands ---------- *)
let read_tagged (tag : string) : string =
  let l = input_line stdin in
  match split_sp l with
  | [t; h] when t = tag -> string_of_hex h
  | _ -> failwith ("expected " ^ tag ^ " got " ^ l)

let parse_settings (toks : string list) : Detect.settings * int * int =
  match toks with
  | [steps; chunk; thr; lthr; pre; fb; ninc; nexc] ->
    let ninc = int_of_string ninc and nexc = int_of_string nexc in
    let inc = SL.init ninc (fun _ -> coq_string (read_tagged "S")) in
    let exc = SL.init nexc (fun _ -> coq_string (read_tagged "S")) in
    ({ Detect.steps = n_of_decimal steps; Detect.chunk_size = n_of_decimal chunk;
       Detect.threshold = f_of_bits (int_of_string thr); Detect.include_encodings = inc;
       Detect.exclude_encodings = exc; Detect.preemptive_behaviour = (pre = "1");
       Detect.language_threshold = f_of_bits (int_of_string lthr); Detect.enable_fallback = (fb = "1") }, ninc, nexc)
  | _ -> failwith "bad settings"

let cmd_detect (toks : string list) : unit =
  let cfg, _, _ = parse_settings toks in
  let payload = bytes_of_ocaml (read_tagged "B") in
  print_result (Detect.from_bytes fo oracles payload cfg)

(* DETECTFULL: the same model with the mess detector (Model/Md.v), the coherence scan, the script layers, the Jaro
   score and the merge (Model/Cd.v, Layers.v, Jaro32.v) computed by the models as well; what is still answered by the
   library: the codecs (Q DEC / TEST / CDEC), the per-character properties (Q FLAGS / RACC / ISALPHA / LOWER) and
   alphabet_languages (Q ALPH) *)
let base_oracles : Pipeline.base_oracles = {
  Pipeline.b_sdecode = oracles.Detect.sdecode;
  Pipeline.b_stest = oracles.Detect.stest;
  Pipeline.b_cdecode = oracles.Detect.cdecode;
  Pipeline.b_flags = md_oracles.Md.char_flags;
  Pipeline.b_unaccent = md_oracles.Md.unaccent;
  Pipeline.b_is_alpha = layer_alpha;
  Pipeline.b_to_lower = layer_lower;
  Pipeline.b_alphabet_langs = cd_oracles.Cd.alphabet_langs;
}
(* the composition itself is the Coq definition Pipeline.pipeline_dec (theorems: Proofs/PipelineFacts.v, CodecFacts.v):
   Pipeline.pipeline with UTF-8, UTF-16LE/BE and every single-byte codec decoded by the models (Model/Codecs.v); only
   the CJK codecs still go to Q DEC / TEST / CDEC *)
let full_oracles : Detect.oracles = Pipeline.pipeline_dec base_oracles
let cmd_detect_full (toks : string list) : unit =
  let cfg, _, _ = parse_settings toks in
  let payload = bytes_of_ocaml (read_tagged "B") in
  print_result (Detect.from_bytes fo full_oracles payload cfg)

(* CMP c1 h1 u1 c2 h2 u2  -> comparison of two keys *)
let cmd_cmp (toks : string list) : unit =
  match SL.map int_of_string toks with
  | [c1; h1; u1; c2; h2; u2] ->
    let k1 = ((f_of_bits c1, f_of_bits h1), f_of_bits u1) and k2 = ((f_of_bits c2, f_of_bits h2), f_of_bits u2) in
    let r = match Matches.cmp_key fo k1 k2 with Datatypes.Lt -> "LT" | Datatypes.Eq -> "EQ" | Datatypes.Gt -> "GT" in
    print_string ("R " ^ r ^ "\n"); flush stdout
  | _ -> failwith "bad CMP"

(* NAME <hex> -> canonical name / multi-byte / aliases *)
let cmd_name (toks : string list) : unit =
  match toks with
  | [h] ->
    let s = coq_string (string_of_hex h) in
    let c = match Names.iana_name s with None -> "NONE" | Some n -> hex_of_string (ocaml_string n) in
    Printf.printf "R %s\n" c; flush stdout
  | _ -> failwith "bad NAME"

(* a container built by a sequence of operations over abstract matches:
   CONT n  followed by n lines:  I enchex chaosbits bom coh payloadhex texthex|NONE   (append item)
   then prints the resulting list like a detect result *)
let read_item () : Matches.cmatch =
  let l = input_line stdin in
  match split_sp l with
  | ["I"; e; chaos; bom; coh; payload; txt] ->
    Matches.CM (bytes_of_ocaml (string_of_hex payload), coq_string (string_of_hex e), f_of_bits (int_of_string chaos),
                parse_coh coh, bom = "1", [], (if txt = "NONE" then None else Some (text_of_utf8 (string_of_hex txt))))
  | _ -> failwith ("bad item " ^ l)

let cmd_cont (toks : string list) : unit =
  match toks with
  | [mode; n] ->
    let items = SL.init (int_of_string n) (fun _ -> read_item ()) in
    let r = if mode = "NEW" then Matches.matches_new fo items
      else SL.fold_left (fun acc it -> Matches.append fo acc it) [] items in
    print_result (Base.Ok r)
  | _ -> failwith "bad CONT"

(* ---------- CLI model: the library is an oracle served by the peer ---------- *)
let rec read_match_lines (n : int) : Matches.cmatch list =
  if n = 0 then [] else begin
    let l = input_line stdin in
    match split_sp l with
    | ["I"; e; chaos; bom; coh; payload; txt; nsub] ->
      let subs = read_match_lines (int_of_string nsub) in
      let m = Matches.CM (bytes_of_ocaml (string_of_hex payload), coq_string (string_of_hex e), f_of_bits (int_of_string chaos),
                          parse_coh coh, bom = "1", subs, (if txt = "NONE" then None else Some (text_of_utf8 (string_of_hex txt)))) in
      m :: read_match_lines (n - 1)
    | _ -> failwith ("bad match line " ^ l)
  end

let lib_oracle (content : BinNums.coq_N list) (thr : Flt.coq_F) : Matches.cmatch list Base.res =
  let a = ask ("Q LIB " ^ hex_of_string (ocaml_of_bytes content) ^ " " ^ string_of_int (bits_of_f thr)) in
  match split_sp a with
  | ["OK"; n] -> Base.Ok (read_match_lines (int_of_string n))
  | ["ERR"; h] -> Base.Err (coq_string (string_of_hex h))
  | _ -> failwith ("bad LIB answer " ^ a)

let opt_hex f o = match o with None -> "NONE" | Some x -> f x
let strs l = if l = [] then "-" else SS.concat "," (SL.map (fun s -> hex_of_string (ocaml_string s)) l)

let print_record (r : Cli.record) : unit =
  Printf.printf "REC %s %s %s %s %s %s %d %s %s %s\n"
    (hex_of_string (ocaml_string r.Cli.r_path))
    (opt_hex (fun e -> hex_of_string (ocaml_string e)) r.Cli.r_encoding)
    (strs r.Cli.r_aliases) (strs r.Cli.r_alternatives) (ocaml_string r.Cli.r_language) (strs r.Cli.r_alphabets)
    (if r.Cli.r_bom then 1 else 0)
    (opt_hex (fun x -> string_of_int (bits_of_f x)) r.Cli.r_chaos_percent)
    (opt_hex (fun x -> string_of_int (bits_of_f x)) r.Cli.r_coherence_percent)
    (opt_hex (fun u -> hex_of_string (ocaml_string u)) r.Cli.r_unicode_path)

let cmd_cli (toks : string list) : unit =
  match toks with
  | [nz; rp; fc; mi; al; thr; nfiles; ninputs] ->
    let b x = x = "1" in
    let fl = { Cli.f_normalize = b nz; Cli.f_replace = b rp; Cli.f_force = b fc; Cli.f_minimal = b mi; Cli.f_alternatives = b al;
               Cli.f_threshold = f_of_bits (int_of_string thr) } in
    let fs0 = SL.init (int_of_string nfiles) (fun _ ->
        match split_sp (input_line stdin) with
        | ["P"; p; "R"; c] -> (coq_string (string_of_hex p), Cli.Regular (bytes_of_ocaml (string_of_hex c)))
        | ["P"; p; "D"; _] -> (coq_string (string_of_hex p), Cli.Directory)
        | _ -> failwith "bad P line") in
    let inputs = SL.init (int_of_string ninputs) (fun _ -> coq_string (read_tagged "F")) in
    let ((fs1, rep), st) = Cli.run fo lib_oracle oracles.Detect.sb_langs (fun t -> bytes_of_ocaml (utf8_of_text t)) fl inputs fs0 in
    (* the writes: bindings stacked on top of the initial file system, oldest last *)
    let rec writes l n = if n = 0 then [] else match l with x :: r -> x :: writes r (n - 1) | [] -> [] in
    SL.iter (fun (p, nd) -> match nd with
        | Cli.Regular c -> Printf.printf "W %s %s\n" (hex_of_string (ocaml_string p)) (hex_of_string (ocaml_of_bytes c))
        | Cli.Directory -> ()) (SL.rev (writes fs1 (SL.length fs1 - SL.length fs0)));
    Printf.printf "ST %d\n" (int_of_n st);
    (match rep with
     | Cli.NoReport -> print_string "REP NONE\n"
     | Cli.Minimal lines ->
       print_string "REP MIN\n";
       SL.iter (fun l -> Printf.printf "L %s\n" (if l = [] then "-" else SS.concat "," (SL.map (fun e -> opt_hex (fun x -> hex_of_string (ocaml_string x)) e) l))) lines
     | Cli.JsonObject r -> print_string "REP OBJ\n"; print_record r
     | Cli.JsonArray rs -> Printf.printf "REP ARR %d\n" (SL.length rs); SL.iter print_record rs);
    print_string "END\n"; flush stdout
  | _ -> failwith "bad CLI"

let () =
  try
    while true do
      let l = input_line stdin in
      match split_sp l with
      | "DETECT" :: rest -> cmd_detect rest
      | "DETECTFULL" :: rest -> cmd_detect_full rest
      | "CMP" :: rest -> cmd_cmp rest
      | "NAME" :: rest -> cmd_name rest
      | "CONT" :: rest -> cmd_cont rest
      | "CLI" :: rest -> cmd_cli rest
      | ["DECL"; h] ->
        (match Declared.any_specified_encoding (bytes_of_ocaml (string_of_hex h)) with
         | None -> print_string "R NONE\n"
         | Some n -> print_string ("R " ^ hex_of_string (ocaml_string n) ^ "\n"));
        flush stdout
      | ["COHR"; t; thr; langs] ->
        (match Cd.coherence_ratio fo cd_oracles (text_of_utf8 (string_of_hex t)) (f_of_bits (int_of_string thr)) (parse_langs langs) with
         | None -> print_string "R ERR\n"
         | Some c -> print_string ("R OK " ^ print_coh c ^ "\n"));
        print_string "END\n"; flush stdout
      | ["MERGEM"; ls] ->
        let lists = if ls = "-" then [] else SL.map parse_coh (SS.split_on_char ';' ls) in
        print_string ("R " ^ print_coh (Cd.merge_coherence_ratios fo lists) ^ "\n"); flush stdout
      | ["FALT"; c] ->
        print_string ("R " ^ print_coh (Cd.filter_alt fo (parse_coh c)) ^ "\n"); flush stdout
      | ["U8"; mode; h] | ["SB"; _; mode; h] as cmd ->
        let input = bytes_of_ocaml (string_of_hex h) in
        let trap, only_test, chunk = match mode with
          | "STRICT" -> Decode.Strict, false, false
          | "TEST" -> Decode.Strict, true, false
          | "CHUNK" -> Decode.Strict, false, true
          | "IGNORE" -> Decode.Ignore, false, false
          | "REPLACE" -> Decode.Replace [], false, false
          | _ -> failwith "bad mode" in
        let show_err (e : Decode.codec_error) =
          let c = match e.Decode.err_cause with Decode.Invalid -> "invalid" | Decode.Incomplete -> "incomplete" | Decode.OtherCause _ -> "other" in
          Printf.printf "R ERR %s %d\n" c (int_of_z e.Decode.upto) in
        (match cmd with
         | "U8" :: _ ->
           (match Decode.helper Decode.utf8_decoder (SL.map n_of_int [239; 191; 189]) input trap only_test chunk true with
            | Decode.HOk out -> Printf.printf "R OK %s\n" (hex_of_string (ocaml_of_bytes out))
            | Decode.HErr e -> show_err e
            | Decode.HFuel -> print_string "R FUEL\n")
         | "SB" :: tbl :: _ ->
           let table = SL.map (fun x -> n_of_int (int_of_string x)) (SS.split_on_char ',' tbl) in
           (match Decode.helper (Decode.sb_decoder table) [n_of_int 65533] input trap only_test chunk false with
            | Decode.HOk out -> Printf.printf "R OK %s\n" (hex_of_string (utf8_of_text out))
            | Decode.HErr e -> show_err e
            | Decode.HFuel -> print_string "R FUEL\n")
         | _ -> ());
        flush stdout
      | ["U16"; bo; mode; h] ->
        let input = bytes_of_ocaml (string_of_hex h) in
        let trap, only_test, chunk = match mode with
          | "STRICT" -> Decode.Strict, false, false
          | "TEST" -> Decode.Strict, true, false
          | "CHUNK" -> Decode.Strict, false, true
          | "IGNORE" -> Decode.Ignore, false, false
          | "REPLACE" -> Decode.Replace [], false, false
          | _ -> failwith "bad mode" in
        (match Utf.utf16_helper (bo = "BE") input trap only_test chunk with
         | Decode.HOk out -> Printf.printf "R OK %s\n" (SS.concat "," (SL.map (fun c -> string_of_int (int_of_n c)) out))
         | Decode.HErr e ->
           let c = match e.Decode.err_cause with Decode.Invalid -> "invalid" | Decode.Incomplete -> "incomplete" | Decode.OtherCause _ -> "other" in
           Printf.printf "R ERR %s %d\n" c (int_of_z e.Decode.upto)
         | Decode.HFuel -> print_string "R FUEL\n");
        flush stdout
      | ["U16RAW"; bo; feeds] ->
        (* the raw decoder fed in pieces: per feed "processed:chars:err", then the finish "F:chars:err" *)
        let d = Utf.utf16_decoder (bo = "BE") in
        let show_chars out = SS.concat "." (SL.map (fun c -> string_of_int (int_of_n c)) out) in
        let show_err = function
          | None -> "-"
          | Some (e : Decode.codec_error) ->
            (match e.Decode.err_cause with Decode.Invalid -> "invalid" | Decode.Incomplete -> "incomplete" | Decode.OtherCause _ -> "other")
            ^ "@" ^ string_of_int (int_of_z e.Decode.upto) in
        let st = ref d.Decode.dinit in
        let parts = SL.map (fun f ->
            let input = bytes_of_ocaml (string_of_hex (if f = "-" then "" else f)) in
            let (((st', off), out), err) = d.Decode.dfeed !st input in
            st := st';
            Printf.sprintf "%d:%s:%s" (int_of_n off) (show_chars out) (show_err err)) (SS.split_on_char ',' feeds) in
        let ((_, out), err) = d.Decode.dfinish !st in
        print_string ("R " ^ SS.concat ";" parts ^ ";F:" ^ show_chars out ^ ":" ^ show_err err ^ "\n"); flush stdout
      | ["UENC"; form; cps] ->
        (* encoders: code points (decimal, comma separated, '-' = empty) -> bytes *)
        let t = if cps = "-" then [] else SL.map (fun x -> n_of_int (int_of_string x)) (SS.split_on_char ',' cps) in
        let b = match form with
          | "8" -> Utf.utf8_encode t
          | "16LE" -> Utf.utf16_encode false t
          | "16BE" -> Utf.utf16_encode true t
          | _ -> failwith "bad form" in
        print_string ("R " ^ hex_of_string (ocaml_of_bytes b) ^ "\n"); flush stdout
      | ["GLUE8"; h] ->
        (* the driver's own hand-written UTF-8 glue (used on oracle answers), for the cross-check against Utf.utf8_chars / utf8_encode *)
        let t = text_of_utf8 (string_of_hex h) in
        print_string ("R " ^ SS.concat "," (SL.map (fun c -> string_of_int (int_of_n c)) t) ^ "\n"); flush stdout
      | ["GLUE8E"; cps] ->
        let t = if cps = "-" then [] else SL.map (fun x -> n_of_int (int_of_string x)) (SS.split_on_char ',' cps) in
        print_string ("R " ^ hex_of_string (utf8_of_text t) ^ "\n"); flush stdout
      | ["U8CHARS"; h] ->
        let t = Utf.utf8_chars (bytes_of_ocaml (string_of_hex h)) in
        print_string ("R " ^ SS.concat "," (SL.map (fun c -> string_of_int (int_of_n c)) t) ^ "\n"); flush stdout
      | ["CODEC"; e; mode; h] ->
        (* Model/Codecs.v by encoding name: what DETECTFULL decodes with *)
        let input = bytes_of_ocaml (string_of_hex h) in
        (match Codecs.modelled_codec (coq_string (string_of_hex e)) with
         | None -> print_string "R UNMODELLED\n"
         | Some k ->
           (match mode with
            | "TEST" -> print_string (if Codecs.codec_test k input then "R OK\n" else "R ERR\n")
            | _ ->
              (match (if mode = "CHUNK" then Codecs.codec_chunk k input else Codecs.codec_strict k input) with
               | Some t -> print_string ("R OK " ^ SS.concat "," (SL.map (fun c -> string_of_int (int_of_n c)) t) ^ "\n")
               | None -> print_string "R ERR\n")));
        flush stdout
      | ["MESSM"; t; thr] ->
        let r = Md.mess_ratio fo (Obj.magic Md32.md_consts32) md_oracles (text_of_utf8 (string_of_hex t)) (f_of_bits (int_of_string thr)) in
        Printf.printf "R %d\nEND\n" (bits_of_f r); flush stdout
      | ["MDK"] ->
        let k : Md.md_consts = Obj.magic Md32.md_consts32 in
        Printf.printf "R %d %d %d %d %d\n" (bits_of_f k.Md.k_03) (bits_of_f k.Md.k_035) (bits_of_f k.Md.k_034) (bits_of_f k.Md.k_2) (bits_of_f k.Md.k_8);
        flush stdout
      | ["SUSPROW"; a] ->
        (* is_suspiciously_successive_range(a, b) for b = None and every range name of the table, in table order *)
        let oa = if a = "-" then None else Some (coq_string (string_of_hex a)) in
        let names = SL.map (fun r -> Some (fst (fst r))) Tables.coq_UNICODE_RANGES in
        let row = SL.map (fun ob -> if Md.suspicious oa ob then '1' else '0') (None :: names) in
        print_string ("R " ^ SS.of_seq (SL.to_seq row) ^ "\n"); flush stdout
      | ["LAYM"; t] ->
        let ls = Layers.alpha_unicode_split layer_alpha layer_lower (text_of_utf8 (string_of_hex t)) in
        print_string ("R " ^ (if ls = [] then "NONE" else SS.concat ";" (SL.map (fun l -> hex_of_string (utf8_of_text l)) ls)) ^ "\nEND\n");
        flush stdout
      | ["SBLM"; n] ->
        let l = SbLangs.sb_langs32 (coq_string (string_of_hex n)) in
        print_string ("R " ^ (if l = [] then "-" else SS.concat "," (SL.map ocaml_string l)) ^ "\n"); flush stdout
      | ["POPM"; lang; t] ->
        (match Jaro32.popularity32 (coq_string lang) (text_of_utf8 (string_of_hex t)) with
         | None -> print_string "R ERR\n"
         | Some x -> Printf.printf "R %d\n" (bits_of_f (Obj.magic x)));
        flush stdout
      | ["QUIT"] -> exit 0
      | _ -> failwith ("unknown command " ^ l)
    done
  with End_of_file -> ()
